#!/usr/bin/env python3
"""mkmutant.py <prop> <name> <file-relative-to-module> <old> <new> [--count N]
Creates selftest/mutants/<prop>/<name>.patch by replacing old with new (exactly once) in /repo HEAD."""
import subprocess, sys, os, tempfile, shutil
prop, name, rel, old, new = sys.argv[1:6]
V = os.path.dirname(os.path.abspath(__file__))
wt = tempfile.mkdtemp(prefix="b6vc-mk-", dir="/var/tmp")
os.rmdir(wt)
subprocess.check_call(["git", "-C", "/repo", "worktree", "add", "-q", "--detach", wt, "HEAD"])
try:
    p = os.path.join(wt, "src/diagonal.works/b6", rel)
    s = open(p).read()
    if s.count(old) != 1:
        sys.exit("pattern occurs %d times in %s" % (s.count(old), rel))
    open(p, "w").write(s.replace(old, new))
    diff = subprocess.check_output(["git", "-C", wt, "diff"], text=True)
    os.makedirs(os.path.join(V, "mutants", prop), exist_ok=True)
    open(os.path.join(V, "mutants", prop, name + ".patch"), "w").write(diff)
    print("wrote", prop, name, len(diff.splitlines()), "lines")
finally:
    subprocess.call(["git", "-C", "/repo", "worktree", "remove", "--force", wt])
