#!/bin/sh
# Must-fail self-test: applies every mutant patch of the given properties (default: all)
# to a scratch worktree of /repo's HEAD and expects the property's check to report a VIOLATION.
# Must-pass part: selftest/harmless/<prop>/*.patch are changes under which the property still
# holds (e.g. a correct fast path); the check has to stay silent on them.
# usage: selftest/run.sh [C10 C09 ...]
V="$(cd "$(dirname "$0")/.." && pwd)"
cd "$V" || exit 2
props="$*"
[ -z "$props" ] && props="$(ls selftest/mutants)"
fail=0
for p in $props; do
  for patch in selftest/mutants/$p/*.patch; do
    [ -f "$patch" ] || continue
    wt="/var/tmp/b6vc-selftest-$$"
    tmpv="/var/tmp/b6vc-selftest-v-$$"
    rm -rf "$wt" "$tmpv"
    git -C /repo worktree add -q --detach "$wt" HEAD || exit 2
    mkdir -p "$tmpv"; ln -s "$V/props" "$tmpv/props"; ln -s "$V/known_findings.json" "$tmpv/known_findings.json"; ln -s "$V/witness" "$tmpv/witness"
    if ! git -C "$wt" apply "$V/$patch"; then echo "SELFTEST-ERROR $patch does not apply"; fail=1
    else
      out="$(VERIF_REPO="$wt" VERIF_DIR="$tmpv" bin/b6vc check "$p" quick 2>&1)"; rc=$?
      if [ $rc -eq 1 ] && echo "$out" | grep -q "^VIOLATION property=$p "; then
        n=$(echo "$out" | grep -c "^VIOLATION"); c=$(echo "$out" | grep "^VIOLATION" | grep -vc "no-failing-input-found")
        echo "SELFTEST-OK   $patch: detected ($n violation lines, $c with replayed input)"
      else
        echo "SELFTEST-MISS $patch: rc=$rc"; echo "$out" | tail -3; fail=1
      fi
    fi
    git -C /repo worktree remove --force "$wt"; rm -rf "$tmpv"
  done
  for patch in selftest/harmless/$p/*.patch; do
    [ -f "$patch" ] || continue
    wt="/var/tmp/b6vc-selftest-$$"
    tmpv="/var/tmp/b6vc-selftest-v-$$"
    rm -rf "$wt" "$tmpv"
    git -C /repo worktree add -q --detach "$wt" HEAD || exit 2
    mkdir -p "$tmpv"; ln -s "$V/props" "$tmpv/props"; ln -s "$V/known_findings.json" "$tmpv/known_findings.json"; ln -s "$V/witness" "$tmpv/witness"
    if ! git -C "$wt" apply "$V/$patch"; then echo "SELFTEST-ERROR $patch does not apply"; fail=1
    else
      out="$(VERIF_REPO="$wt" VERIF_DIR="$tmpv" bin/b6vc check "$p" quick 2>&1)"; rc=$?
      if [ $rc -eq 0 ] && ! echo "$out" | grep -q "^VIOLATION"; then
        echo "SELFTEST-OK   $patch: harmless change accepted"
      else
        echo "SELFTEST-FALSE-ALARM $patch: rc=$rc"; echo "$out" | grep "^VIOLATION" | head -3; fail=1
      fi
    fi
    git -C /repo worktree remove --force "$wt"; rm -rf "$tmpv"
  done
done
exit $fail
