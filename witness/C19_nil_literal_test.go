//go:build verif

package b6

// Witness scenario for C19 (injected with go test -overlay, never part of /repo): the nil
// literal converted to its protobuf form and back must equal the original, and the result
// must be convertible again.

import "testing"

func TestVerifWitness_C19_nil_literal(t *testing.T) {
	e := Expression{AnyExpression: NilExpression{}, Begin: 3, End: 6}
	p, err := e.ToProto()
	if err != nil {
		t.Fatalf("setup: %v", err)
	}
	back, err := ExpressionFromProto(p)
	if err != nil {
		t.Fatalf("REPLAY-FAILED nil literal does not convert back: %v", err)
	}
	if !back.Equal(e) || !e.Equal(back) {
		t.Fatalf("REPLAY-FAILED nil literal came back as an expression that is not equal to it (AnyExpression %T)", back.AnyExpression)
	}
	if _, err := back.ToProto(); err != nil {
		t.Fatalf("REPLAY-FAILED second conversion failed: %v", err)
	}
	t.Log("REPLAY-PASSED")
}
