//go:build verif

package ingest

// Witness scenario for C13 (replayed by b6vc when the contract of AddFeature fails;
// injected into the package with go test -overlay, never part of /repo).
// A closed path under an area is replaced by an open path: AddFeature must
// reject the change and the world must still hold the closed path.

import (
	"testing"

	"diagonal.works/b6"
)

func verifWitnessC13(t *testing.T, w MutableWorld) {
	a := osmPoint(2309943870, 51.5371371, -0.1240464)
	b := osmPoint(2309943835, 51.5355393, -0.1247150)
	c := osmPoint(2309943825, 51.5354848, -0.1243698)
	path := osmPath(222021570, []Feature{a, b, c, a})
	area := osmSimpleArea(222021570)
	if err := addFeatures(w, a, b, c, path, area); err != nil {
		t.Fatalf("setup failed: %v", err)
	}
	before := w.FindFeatureByID(path.FeatureID()).(b6.PhysicalFeature).GeometryLen()
	open := osmPath(222021570, []Feature{a, b, c})
	err := w.AddFeature(open)
	if err == nil {
		t.Fatalf("setup: expected AddFeature to reject an open path under an area")
	}
	after := w.FindFeatureByID(path.FeatureID()).(b6.PhysicalFeature).GeometryLen()
	if after != before {
		t.Fatalf("REPLAY-FAILED rejected AddFeature (%v) changed the world: path had %d points, now has %d", err, before, after)
	}
	t.Log("REPLAY-PASSED")
}

func TestVerifWitness_C13_basic(t *testing.T) { verifWitnessC13(t, NewBasicMutableWorld()) }

func TestVerifWitness_C13_overlay(t *testing.T) {
	verifWitnessC13(t, NewMutableOverlayWorld(NewBasicMutableWorld()))
}
