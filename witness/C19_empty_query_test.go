//go:build verif

package b6

// Witness scenario for C19 (injected with go test -overlay, never part of /repo): a query
// tree containing the empty query converts to its protobuf form and back.

import "testing"

func TestVerifWitness_C19_empty_query(t *testing.T) {
	e := Expression{AnyExpression: QueryExpression{Query: Union{Keyed{Key: "#a"}, Empty{}}}}
	p, err := e.ToProto()
	if err != nil {
		t.Fatalf("setup: %v", err)
	}
	back, err := ExpressionFromProto(p)
	if err != nil {
		t.Fatalf("REPLAY-FAILED the query does not convert back: %v", err)
	}
	if !back.Equal(e) {
		t.Fatalf("REPLAY-FAILED the query came back different")
	}
	t.Log("REPLAY-PASSED")
}
