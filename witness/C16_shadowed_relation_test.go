//go:build verif

package ingest

// Witness scenario for C16 (injected with go test -overlay, never part of /repo): real
// BasicMutableWorlds as the two layers. The base holds relation 7 with member point 1; the
// upper layer holds a new version of relation 7 whose member is point 2. Asking the layered
// world for the relations containing point 1 must not return relation 7.

import (
	"testing"

	"diagonal.works/b6"
)

func TestVerifWitness_C16_shadowed_relation(t *testing.T) {
	p := osmPoint(1, 51.5357237, -0.1253052)
	q := osmPoint(2, 51.5350350, -0.1256825)
	rBase := NewRelationFeature(1)
	rBase.RelationID = FromOSMRelationID(7)
	rBase.Members = []b6.RelationMember{{ID: p.FeatureID()}}
	base := NewBasicMutableWorld()
	if err := addFeatures(base, p, q, rBase); err != nil {
		t.Fatalf("setup: %v", err)
	}
	rUpper := NewRelationFeature(1)
	rUpper.RelationID = FromOSMRelationID(7)
	rUpper.Members = []b6.RelationMember{{ID: q.FeatureID()}}
	upper := NewBasicMutableWorld()
	if err := addFeatures(upper, q, rUpper); err != nil {
		t.Fatalf("setup: %v", err)
	}
	w := NewOverlayWorld(upper, base)
	rs := w.FindRelationsByFeature(p.FeatureID())
	for rs.Next() {
		t.Fatalf("REPLAY-FAILED relation %s reported as containing point 1 although the upper layer replaced it; reported member: %s", rs.Feature().FeatureID(), rs.Feature().Member(0).ID)
	}
	t.Log("REPLAY-PASSED")
}
