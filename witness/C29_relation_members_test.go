package ingest

import (
	"context"
	"testing"

	"diagonal.works/b6"
	"diagonal.works/b6/osm"
)

func TestRelationMembersPointAtTheFeaturesTheirElementsBecame(t *testing.T) {
	src := &MemoryOSMSource{
		Nodes: []osm.Node{
			{ID: 1, Location: osm.LatLng{Lat: 51.0, Lng: 0.0}},
			{ID: 2, Location: osm.LatLng{Lat: 51.0, Lng: 0.001}},
			{ID: 3, Location: osm.LatLng{Lat: 51.001, Lng: 0.0}},
		},
		Ways: []osm.Way{
			{ID: 5, Nodes: []osm.NodeID{1, 2, 3, 1}}, // closed: becomes an area
			{ID: 6, Nodes: []osm.NodeID{1, 2}},       // open: a path only
		},
		Relations: []osm.Relation{
			{ID: 7, Tags: osm.Tags{{Key: "type", Value: "multipolygon"}}, Members: []osm.Member{{Type: osm.ElementTypeWay, ID: 5, Role: "outer"}}},
			{ID: 100, Tags: osm.Tags{{Key: "type", Value: "site"}}, Members: []osm.Member{
				{Type: osm.ElementTypeWay, ID: 5, Role: "a"},
				{Type: osm.ElementTypeWay, ID: 6, Role: "b"},
				{Type: osm.ElementTypeRelation, ID: 7, Role: "c"},
				{Type: osm.ElementTypeNode, ID: 1, Role: "d"},
			}},
		},
	}
	fs, err := NewFeatureSourceFromPBF(src, &BuildOptions{Cores: 1}, context.Background())
	if err != nil {
		t.Fatal(err)
	}
	var members []b6.RelationMember
	emit := func(f Feature, g int) error {
		if r, ok := f.(*RelationFeature); ok {
			members = append(members, r.Members...)
		}
		return nil
	}
	if err := fs.Read(ReadOptions{Goroutines: 1}, emit, context.Background()); err != nil {
		t.Fatal(err)
	}
	expected := []b6.FeatureID{
		AreaIDFromOSMWayID(5).FeatureID(),
		FromOSMWayID(6).FeatureID(),
		AreaIDFromOSMRelationID(7).FeatureID(),
		FromOSMNodeID(1).FeatureID(),
	}
	if len(members) != len(expected) {
		t.Fatalf("expected %d members, found %d", len(expected), len(members))
	}
	for i, e := range expected {
		if members[i].ID != e {
			t.Errorf("member %d: expected %s, found %s", i, e, members[i].ID)
		}
	}
}
