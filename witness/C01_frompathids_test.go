//go:build verif

package compact

// Witness scenario for C01: a polygon given by path IDs inside an area with mixed
// geometry must be converted without crashing the build.

import (
	"testing"

	"diagonal.works/b6"
)

func TestVerifWitness_C01_from_path_ids(t *testing.T) {
	defer func() {
		if r := recover(); r != nil {
			t.Fatalf("REPLAY-FAILED FromPathIDs panicked on one path ID: %v", r)
		}
	}()
	nt := &NamespaceTable{ToEncoded: map[b6.Namespace]Namespace{"diagonal.works/verif": 1}, FromEncoded: b6.Namespaces{b6.NamespaceInvalid, "diagonal.works/verif"}}
	var p PolygonGeometryReferences
	p.FromPathIDs([]b6.FeatureID{{Type: b6.FeatureTypePath, Namespace: "diagonal.works/verif", Value: 7}}, nt)
	if len(p.Paths) != 1 || p.Paths[0].Value != 7 {
		t.Fatalf("REPLAY-FAILED path ID not copied: %v", p.Paths)
	}
	t.Log("REPLAY-PASSED")
}
