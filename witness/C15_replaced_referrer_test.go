//go:build verif

package ingest

// Witness scenario for C15 (injected with go test -overlay, never part of /repo): a base
// relation with member point 1 is replaced in a mutable overlay world by a version whose
// member is point 2; the features referring to point 1 must no longer include it.

import (
	"testing"

	"diagonal.works/b6"
)

func TestVerifWitness_C15_replaced_referrer(t *testing.T) {
	p := osmPoint(1, 51.5357237, -0.1253052)
	q := osmPoint(2, 51.5350350, -0.1256825)
	rBase := NewRelationFeature(1)
	rBase.RelationID = FromOSMRelationID(7)
	rBase.Members = []b6.RelationMember{{ID: p.FeatureID()}}
	base := NewBasicMutableWorld()
	if err := addFeatures(base, p, q, rBase); err != nil {
		t.Fatalf("setup: %v", err)
	}
	w := NewMutableOverlayWorld(base)
	rUpper := NewRelationFeature(1)
	rUpper.RelationID = FromOSMRelationID(7)
	rUpper.Members = []b6.RelationMember{{ID: q.FeatureID()}}
	if err := w.AddFeature(rUpper); err != nil {
		t.Fatalf("setup: %v", err)
	}
	fs := w.FindReferences(p.FeatureID())
	for fs.Next() {
		t.Fatalf("REPLAY-FAILED %s reported as referring to point 1 after it was replaced by a version that refers to point 2 only", fs.FeatureID())
	}
	t.Log("REPLAY-PASSED")
}
