//go:build verif

package functions

// Witness scenarios for C24 / C23 (collection functions), replayed by b6vc when
// the corresponding contract fails.

import (
	"testing"

	"diagonal.works/b6"
)

func verifItems(t *testing.T, c b6.Collection[any, any]) int {
	n := 0
	i := c.Begin()
	for {
		ok, err := i.Next()
		if err != nil {
			t.Fatalf("setup: iteration failed: %v", err)
		}
		if !ok {
			return n
		}
		n++
		if n > 1000 {
			t.Fatalf("REPLAY-FAILED iteration does not end")
		}
	}
}

// take with a negative n reports a count; iterating yields a different number of items.
func TestVerifWitness_C24_take_negative(t *testing.T) {
	c := b6.ArrayCollection[any, any]{Keys: []any{1, 2, 3}, Values: []any{10, 20, 30}}.Collection()
	r, err := take(nil, c, -1)
	if err != nil {
		t.Fatalf("setup: %v", err)
	}
	reported, ok := r.Count()
	items := verifItems(t, r)
	if ok && reported != items {
		t.Fatalf("REPLAY-FAILED take(c, -1) reports a count of %d but yields %d items", reported, items)
	}
	t.Log("REPLAY-PASSED")
}

// top on an empty collection must not crash the process.
func TestVerifWitness_C23_top_empty(t *testing.T) {
	defer func() {
		if r := recover(); r != nil {
			t.Fatalf("REPLAY-FAILED top on an empty collection panicked: %v", r)
		}
	}()
	c := b6.ArrayCollection[any, any]{}.Collection()
	r, err := top(nil, c, 3)
	if err == nil && verifItems(t, r) != 0 {
		t.Fatalf("REPLAY-FAILED top of an empty collection is not empty")
	}
	t.Log("REPLAY-PASSED")
}
