package ingest

import (
	"context"
	"errors"
	"testing"

	"diagonal.works/b6/osm"
)

func TestReadReportsACallbackErrorForAMultipolygonArea(t *testing.T) {
	src := &MemoryOSMSource{
		Nodes: []osm.Node{
			{ID: 1, Location: osm.LatLng{Lat: 51.0, Lng: 0.0}},
			{ID: 2, Location: osm.LatLng{Lat: 51.0, Lng: 0.001}},
			{ID: 3, Location: osm.LatLng{Lat: 51.001, Lng: 0.0}},
		},
		Ways: []osm.Way{{ID: 5, Nodes: []osm.NodeID{1, 2, 3, 1}}},
		Relations: []osm.Relation{
			{ID: 7, Tags: osm.Tags{{Key: "type", Value: "multipolygon"}}, Members: []osm.Member{{Type: osm.ElementTypeWay, ID: 5, Role: "outer"}}},
			{ID: 8, Tags: osm.Tags{{Key: "type", Value: "site"}}, Members: []osm.Member{{Type: osm.ElementTypeNode, ID: 1}}},
		},
	}
	fs, err := NewFeatureSourceFromPBF(src, &BuildOptions{Cores: 1}, context.Background())
	if err != nil {
		t.Fatal(err)
	}
	broken := errors.New("broken")
	after := 0
	failed := false
	emit := func(f Feature, g int) error {
		if failed {
			after++
		}
		if a, ok := f.(*AreaFeature); ok && a.AreaID == AreaIDFromOSMRelationID(7) {
			failed = true
			return broken
		}
		return nil
	}
	err = fs.Read(ReadOptions{SkipPoints: true, SkipPaths: true, Goroutines: 1}, emit, context.Background())
	if !failed {
		t.Fatal("the multipolygon area was never emitted")
	}
	if err == nil {
		t.Errorf("Read reported success although the callback failed")
	}
	if after != 0 {
		t.Errorf("Read emitted %d more features after the callback failed", after)
	}
}
