//go:build verif

package ingest

// Witness scenario for C15: two relations that are members of each other.
// FindReferences on either must return (it overflowed the stack before the fix).

import (
	"testing"

	"diagonal.works/b6"
)

func TestVerifWitness_C15_cycle(t *testing.T) {
	a := b6.FeatureID{Type: b6.FeatureTypeRelation, Namespace: "diagonal.works/test", Value: 1}
	b := b6.FeatureID{Type: b6.FeatureTypeRelation, Namespace: "diagonal.works/test", Value: 2}
	ra := &RelationFeature{RelationID: a.ToRelationID(), Members: []b6.RelationMember{{ID: b}}}
	rb := &RelationFeature{RelationID: b.ToRelationID(), Members: []b6.RelationMember{{ID: a}}}
	refs := NewFeatureReferences()
	refs.AddFeature(ra)
	refs.AddFeature(rb)
	found := refs.FindReferences(a)
	if len(found) != 2 {
		t.Fatalf("REPLAY-FAILED expected both relations of the cycle as referrers, found %d", len(found))
	}
	t.Log("REPLAY-PASSED")
}
