//go:build verif

package api_test

// Witness scenario for C26: an expression that evaluates to a change whose
// application fails (adding a tag to a feature that does not exist). The
// evaluator must report the error.

import (
	"sync"
	"testing"

	"diagonal.works/b6"
	"diagonal.works/b6/api"
	"diagonal.works/b6/api/functions"
	"diagonal.works/b6/ingest"
)

func TestVerifWitness_C26_apply_error(t *testing.T) {
	worlds := &ingest.MutableWorlds{Base: ingest.NewBasicMutableWorld(), Mutable: make(map[b6.FeatureID]ingest.MutableWorld)}
	var lock sync.RWMutex
	e := api.Evaluator{Worlds: worlds, FunctionSymbols: functions.Functions(), Adaptors: functions.Adaptors(), Lock: &lock}
	lock.RLock()
	_, err := e.EvaluateString("add-tag /n/424242424242 #amenity=cafe", b6.FeatureIDInvalid)
	lock.RUnlock()
	// direct application of the same change, to know what Apply says
	change := ingest.AddTags{{ID: b6.FeatureID{Type: b6.FeatureTypePoint, Namespace: b6.NamespaceOSMNode, Value: 424242424242}, Tag: b6.Tag{Key: "#amenity", Value: b6.NewStringExpression("cafe")}}}
	_, applyErr := change.Apply(worlds.FindOrCreateWorld(b6.FeatureIDInvalid))
	if applyErr == nil {
		t.Fatalf("setup: expected Apply to fail for a missing feature")
	}
	if err == nil {
		t.Fatalf("REPLAY-FAILED the change failed to apply (%v) but EvaluateString reported success", applyErr)
	}
	t.Log("REPLAY-PASSED")
}
