//go:build verif

package ingest

// Witness scenario for C14 (replayed by b6vc when the contract of
// MutableOverlayWorld.Snapshot fails; injected with go test -overlay, never part of /repo).
// A path is found by a tag query in a snapshot; then its first point is moved in the live
// world; the same query in the snapshot must still return the path with its old geometry.

import (
	"testing"

	"diagonal.works/b6"
	"github.com/golang/geo/s2"
)

func TestVerifWitness_C14_snapshot_search(t *testing.T) {
	a := osmPoint(1, 51.5357237, -0.1253052)
	b := osmPoint(2, 51.5350350, -0.1256825)
	path := osmPath(10, []Feature{a, b})
	path.AddTag(b6.Tag{Key: "#highway", Value: b6.NewStringExpression("footway")})

	overlay := NewMutableOverlayWorld(NewBasicMutableWorld())
	if err := addFeatures(overlay, a, b, path); err != nil {
		t.Fatal(err)
	}
	snapshot := overlay.Snapshot()

	firstPoint := func(w b6.World) s2.LatLng {
		found := w.FindFeatures(b6.Tagged{Key: "#highway", Value: b6.NewStringExpression("footway")})
		if !found.Next() {
			t.Fatal("expected to find the path")
		}
		return s2.LatLngFromPoint(found.Feature().(b6.PhysicalFeature).PointAt(0))
	}
	before := firstPoint(snapshot)

	// Move the first point in the live world
	moved := osmPoint(1, 51.5366467, -0.1263796)
	if err := overlay.AddFeature(moved); err != nil {
		t.Fatal(err)
	}

	after := firstPoint(snapshot)
	if before != after {
		t.Fatalf("REPLAY-FAILED snapshot search result changed after a later edit of the live world: %s before, %s after", before, after)
	}
	byID := s2.LatLngFromPoint(snapshot.FindFeatureByID(path.FeatureID()).(b6.PhysicalFeature).PointAt(0))
	if byID != before {
		t.Errorf("snapshot lookup by id changed: %s before, %s after", before, byID)
	}
	if live := firstPoint(overlay); live == before {
		t.Errorf("expected the live world to show the moved point")
	}
	t.Log("REPLAY-PASSED")
}
