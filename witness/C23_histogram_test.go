//go:build verif

package api

// Witness scenario for C23: building a histogram from a collection whose
// iteration fails must return the error, not crash the process.

import (
	"errors"
	"testing"

	"diagonal.works/b6"
)

type verifFailingIterator struct{ n int }

func (f *verifFailingIterator) Key() any   { return f.n }
func (f *verifFailingIterator) Value() any { return f.n }
func (f *verifFailingIterator) Next() (bool, error) {
	f.n++
	if f.n > 1 {
		return false, errors.New("broken collection")
	}
	return true, nil
}
func (f *verifFailingIterator) KeyExpression() b6.Expression   { return b6.Expression{} }
func (f *verifFailingIterator) ValueExpression() b6.Expression { return b6.Expression{} }

type verifFailingCollection struct{}

func (verifFailingCollection) BeginUntyped() b6.Iterator[any, any] { return &verifFailingIterator{} }
func (verifFailingCollection) Count() (int, bool)                  { return 0, false }

func TestVerifWitness_C23_histogram_error(t *testing.T) {
	defer func() {
		if r := recover(); r != nil {
			t.Fatalf("REPLAY-FAILED NewHistogramFromCollection panicked on a failing collection: %v", r)
		}
	}()
	h, err := NewHistogramFromCollection(verifFailingCollection{}, b6.CollectionID{Namespace: "diagonal.works/verif", Value: 1})
	if err == nil {
		t.Fatalf("setup: expected the collection's error, got feature %v", h)
	}
	t.Log("REPLAY-PASSED")
}
