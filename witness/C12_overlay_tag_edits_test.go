//go:build verif

package ingest

// Witness scenarios for C12 (injected with go test -overlay, never part of /repo), with a
// real BasicMutableWorld as the base.

import (
	"testing"

	"diagonal.works/b6"
)

func verifWitnessC12World(t *testing.T) (*MutableOverlayWorld, b6.FeatureID) {
	caravan := osmPoint(2300722786, 51.5357237, -0.1253052)
	caravan.AddTag(b6.Tag{Key: "name", Value: b6.NewStringExpression("Caravan")})
	base := NewBasicMutableWorld()
	if err := addFeatures(base, caravan); err != nil {
		t.Fatalf("setup: %v", err)
	}
	return NewMutableOverlayWorld(base), caravan.FeatureID()
}

func TestVerifWitness_C12_remove_overlay_only_tag(t *testing.T) {
	w, id := verifWitnessC12World(t)
	if err := w.AddTag(id, b6.Tag{Key: "wheelchair", Value: b6.NewStringExpression("yes")}); err != nil {
		t.Fatalf("setup: %v", err)
	}
	if err := w.RemoveTag(id, "wheelchair"); err != nil {
		t.Fatalf("setup: %v", err)
	}
	if tag := w.FindFeatureByID(id).Get("wheelchair"); tag.IsValid() {
		t.Fatalf("REPLAY-FAILED a tag set and then removed through the overlay is still there: %s", tag)
	}
	t.Log("REPLAY-PASSED")
}

func TestVerifWitness_C12_plain_edits_survive(t *testing.T) {
	w, id := verifWitnessC12World(t)
	if err := w.AddTag(id, b6.Tag{Key: "wheelchair", Value: b6.NewStringExpression("yes")}); err != nil {
		t.Fatalf("setup: %v", err)
	}
	if err := w.AddTag(id, b6.Tag{Key: "#amenity", Value: b6.NewStringExpression("restaurant")}); err != nil {
		t.Fatalf("setup: %v", err)
	}
	if tag := w.FindFeatureByID(id).Get("wheelchair"); !tag.IsValid() || tag.Value.String() != "yes" {
		t.Fatalf("REPLAY-FAILED the plain tag set earlier is lost after a searchable tag was set")
	}
	t.Log("REPLAY-PASSED")
}
