#!/bin/sh
# Confirms a seeded change delivered by a sub-agent and runs our check against it.
# usage: tools/seedcheck.sh <prop> <dir with patch.diff + *_test.go + README.md> <pkgdir relative to module root> [name] [skipsuite]
# Steps (all in a scratch worktree of /repo HEAD under /var/tmp, removed at the end):
#   1 demo passes without the change   2 change applies and compiles   3 demo fails with the change
#   4 full baseline suite passes with the change (demo removed)        5 ./check <prop> quick against the changed tree
# On success the change is stored as /verif/seeded/<prop>-<name>/ with meta.json.
V="$(cd "$(dirname "$0")/.." && pwd)"
p="$1"; src="$2"; pkg="$3"; name="${4:-$(basename "$src")}"; skipsuite="$5"
export GOFLAGS=-mod=mod GOPROXY=off GOSUMDB=off GOTOOLCHAIN=local
wt="/var/tmp/b6vc-seed-$$"
rm -rf "$wt"; git -C /repo worktree add -q --detach "$wt" HEAD || exit 2
cleanup() { git -C /repo worktree remove --force "$wt" 2>/dev/null; rm -rf "$wt" /var/tmp/b6vc-seed-v-$$; }
trap cleanup EXIT
mod="$wt/src/diagonal.works/b6"
demo="$(ls "$src"/*_test.go | head -1)"
tname="$(grep -o '^func Test[A-Za-z0-9_]*' "$demo" | head -1 | sed 's/func //')"
cp "$demo" "$mod/$pkg/"
echo "== 1 demo without change"
(cd "$mod" && go test -vet=off -count=1 -timeout 300s -run "^$tname" "./$pkg" >/var/tmp/seed1.$$ 2>&1); r1=$?
tail -3 /var/tmp/seed1.$$
echo "== 2 apply"
git -C "$wt" apply "$src/patch.diff" || { echo "SEED-REJECT patch does not apply"; exit 3; }
(cd "$mod" && go build ./... 2>&1 | grep -v gdal | grep -v '^#' | head -5)
echo "== 3 demo with change"
(cd "$mod" && go test -vet=off -count=1 -timeout 300s -run "^$tname" "./$pkg" >/var/tmp/seed3.$$ 2>&1); r3=$?
tail -5 /var/tmp/seed3.$$
rm -f "$mod/$pkg/$(basename "$demo")"
r4=0
if [ -z "$skipsuite" ]; then
  echo "== 4 baseline suite with change"
  (cd "$mod" && go test -json -vet=off -count=1 -timeout 25m ./... > /var/tmp/seed4.$$ 2>/dev/null)
  python3 - /var/tmp/seed4.$$ <<'PY'
import json,sys
passed=set()
for l in open(sys.argv[1]):
    try: e=json.loads(l)
    except Exception: continue
    if e.get("Test") and e.get("Action")=="pass": passed.add(e["Package"]+"::"+e["Test"])
base=set(json.load(open("/root/.vp/BASELINE.json"))["stable_pass"])
missing=sorted(base-passed)
print("baseline:",len(base),"passing with change:",len(base&passed))
for m in missing[:10]: print("  NOT PASSING:",m)
sys.exit(1 if missing else 0)
PY
  r4=$?
fi
echo "== 5 check $p against the changed tree"
tmpv="/var/tmp/b6vc-seed-v-$$"; rm -rf "$tmpv"; mkdir -p "$tmpv"
ln -s "$V/props" "$tmpv/props"; ln -s "$V/known_findings.json" "$tmpv/known_findings.json"; ln -s "$V/witness" "$tmpv/witness"
out="$(VERIF_REPO="$wt" VERIF_DIR="$tmpv" "$V/bin/b6vc" check "$p" quick 2>&1)"; r5=$?
echo "$out" | grep -E "^(VIOLATION|KNOWN|b6vc)" | head -8
det=false; echo "$out" | grep -q "^VIOLATION property=$p " && det=true
rm -f /var/tmp/seed1.$$ /var/tmp/seed3.$$ /var/tmp/seed4.$$
echo "RESULT prop=$p name=$name demo_without=$r1 demo_with=$r3 suite=$r4 check_rc=$r5 detected=$det"
if [ $r1 -eq 0 ] && [ $r3 -ne 0 ] && [ $r4 -eq 0 ]; then
  d="$V/seeded/$p-$name"; mkdir -p "$d"
  if [ "$src" != "$d" ]; then cp "$src/patch.diff" "$d/"; cp "$demo" "$d/"; [ -f "$src/README.md" ] && cp "$src/README.md" "$d/"; fi
  python3 - "$d" "$p" "$pkg" "$tname" "$det" "$(basename "$demo")" "$skipsuite" <<'PY'
import json,sys,os
d,p,pkg,tname,det,demo,skip=sys.argv[1:8]
meta={"property":p,"demo_test_file":demo,"demo_package":"src/diagonal.works/b6/"+pkg,"demo_test":tname,
 "confirmed":{"demo_passes_without_change":True,"demo_fails_with_change":True,"baseline_suite_passes_with_change":(skip=="") or "not re-run here (sub-agent ran it)",
  "how":"tools/seedcheck.sh: scratch worktree of /repo HEAD under /var/tmp; go test -run <demo> before and after git apply; full baseline suite (628 tests of /root/.vp/BASELINE.json) with the change and without the demo file"},
 "detected_by_check": det=="true", "check_cmd":"./check %s quick (VERIF_REPO=<scratch worktree with the patch applied>)"%p}
old={}
mp=os.path.join(d,"meta.json")
if os.path.exists(mp):
    try: old=json.load(open(mp))
    except Exception: old={}
for k in ("needs_to_manifest","what","notes"):
    if k in old: meta[k]=old[k]
if skip and old.get("confirmed"): meta["confirmed"]=old["confirmed"]
json.dump(meta,open(mp,"w"),indent=1)
PY
  echo "SEED-KEPT $d"
else
  echo "SEED-REJECT (demo/suite conditions not met)"
fi
