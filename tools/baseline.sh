#!/bin/sh
# Runs the repository's baseline test suite with the verif guard OFF and compares with BASELINE.json.
export GOFLAGS=-mod=mod GOPROXY=off GOSUMDB=off GOTOOLCHAIN=local
out=${1:-/var/tmp/b6vc-baseline.json}
cd /repo/src/diagonal.works/b6 && go test -json -vet=off -count=1 -timeout 25m ./... > "$out" 2>/dev/null
python3 - "$out" <<'PY'
import json,sys
passed=set(); failed=set()
for l in open(sys.argv[1]):
    try: e=json.loads(l)
    except Exception: continue
    if e.get("Test") and e.get("Action") in ("pass","fail"):
        k=e["Package"]+"::"+e["Test"]
        (passed if e["Action"]=="pass" else failed).add(k)
base=set(json.load(open("/root/.vp/BASELINE.json"))["stable_pass"])
missing=sorted(base-passed)
print("baseline tests:",len(base),"passed now:",len(base&passed),"missing/failed:",len(missing))
for m in missing[:20]: print("  NOT PASSING:",m)
sys.exit(1 if missing else 0)
PY
