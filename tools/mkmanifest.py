#!/usr/bin/env python3
"""Regenerates /verif/MANIFEST.json from props/*.json and tools/not_applicable.json.

A property is claimed iff props/<id>.json exists and has "claimed": true.
Everything else is listed under not_applicable with its reason.
"""
import json, os, subprocess, sys

V = os.path.dirname(os.path.dirname(os.path.abspath(__file__)))
props = [json.loads(l) for l in open(os.path.join(V, "properties.jsonl"))]
na = json.load(open(os.path.join(V, "tools", "not_applicable.json")))
hooks_commits = []
try:
    out = subprocess.run(["git", "-C", "/repo", "log", "--format=%H %s"], capture_output=True, text=True).stdout
    for line in out.splitlines():
        h, s = line.split(" ", 1)
        if s.startswith("verif:"):
            hooks_commits.append(h)
except Exception:
    pass
hooks_commits.reverse()

checks, not_app = [], []
for p in props:
    pid = p["id"]
    f = os.path.join(V, "props", pid + ".json")
    spec = json.load(open(f)) if os.path.exists(f) else None
    if spec and spec.get("claimed"):
        checks.append({
            "property_id": pid,
            "quick_cmd": "./check %s quick" % pid,
            "thorough_cmd": "./check %s thorough" % pid,
            "evidence_file": "/verif/evidence/%s.json" % pid,
            "replay_cmd_template": "cat {path}",
            "engine": "b6vc",
            "level_claimed": {"category": spec["level"], "text": spec["claim_text"], "design_ref": spec.get("design_ref", "DESIGN.md section 6")},
            "level_note": spec["level_note"],
            "technique": spec.get("technique", "contract-based deductive verification: weakest-precondition VCs generated from go/ssa of the real code, discharged by z3/cvc5"),
        })
    else:
        reason = na.get(pid)
        if not reason:
            sys.exit("no not_applicable reason for unclaimed property " + pid)
        not_app.append({"property_id": pid, "reason": reason})

manifest = {
    "version": 1,
    "setup_cmd": "./setup.sh",
    "hooks": {
        "guard": "verif",
        "enable": "go build tag: -tags verif (contract, spec and lemma files zz_verif_*.go plus package verifrt exist only under this tag)",
        "baseline_off_cmd": "cd /repo/src/diagonal.works/b6 && GOFLAGS=-mod=mod GOPROXY=off GOSUMDB=off go test -json -vet=off -count=1 -timeout 25m ./...",
        "source_commits": hooks_commits,
        "add_only": True,
    },
    "engines": [{
        "name": "b6vc",
        "path": "/verif/engine",
        "serves_properties": [c["property_id"] for c in checks],
        "kind_free_text": "deductive verifier built here: symbolic execution / weakest preconditions over go/ssa (x/tools v0.29.0, vendored) of /repo's working tree with build tag verif; contracts as //@ comment blocks in zz_verif_contracts.go, spec functions and lemmas as Go in zz_verif_spec.go; obligations in SMT-LIB raced on z3 5.1.0, cvc5 1.0.3, z3 4.8.12; counterexamples replayed on the real code with go test -overlay",
    }],
    "checks": checks,
    "not_applicable": not_app,
    "notes": "Contract-based deductive verification only. See DESIGN.md for per-property kernels, what stays unverified, and known_findings.json for defects found and fixed.",
}
json.dump(manifest, open(os.path.join(V, "MANIFEST.json"), "w"), indent=1)
print("claimed:", [c["property_id"] for c in checks])
print("not_applicable:", len(not_app))
