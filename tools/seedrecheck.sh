#!/bin/sh
# usage: tools/seedrecheck.sh C39-b ...  re-runs our check against already confirmed seeds in /verif/seeded/<name>/ (suite not re-run)
V="$(cd "$(dirname "$0")/.." && pwd)"
for s in "$@"; do
  p=$(echo $s | cut -d- -f1); d=$V/seeded/$s
  pkg=$(python3 -c "import json;print(json.load(open('$d/meta.json'))['demo_package'].replace('src/diagonal.works/b6/','').replace('src/diagonal.works/b6','.'))")
  [ -z "$pkg" ] && pkg=.
  n=$(echo $s | cut -d- -f2-)
  echo "######## $s"
  $V/tools/seedcheck.sh $p $d $pkg $n skipsuite 2>&1 | grep -E "^(RESULT|VIOLATION|b6vc)" | cut -c1-260
done
