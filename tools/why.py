#!/usr/bin/env python3
"""why.py <prop> [substr]: show solver outputs for failed obligations; dumps smt2 to /tmp/why_<n>.smt2"""
import json,glob,sys,os
prop=sys.argv[1]; sub=sys.argv[2] if len(sys.argv)>2 else ''
for n,f in enumerate(sorted(glob.glob('/verif/replays/%s/*.json'%prop))):
    if sub not in f: continue
    d=json.load(open(f))
    print('==',os.path.basename(f), d.get('status'), d.get('solver'))
    print('   ', (d.get('statement') or '')[:200])
    print('   out:', (d.get('verifier_output') or '')[:500].replace('\n',' | '))
    if d.get('model'): print('   model:', d['model'])
    r=d.get('replay')
    if r: print('   replay:', r.get('call'), r.get('confirmed'), r.get('reason'))
    if 'smt2' in d:
        p='/tmp/why_%d.smt2'%n; open(p,'w').write(d['smt2']); print('   smt2:',p,len(d['smt2']))
