#!/bin/sh
# usage: tools/seedbatch.sh C39:b C31:a ...   (runs tools/seedcheck.sh for each delivered seed; package dir = dir of first patched file unless given as C24:b:ingest)
V="$(cd "$(dirname "$0")/.." && pwd)"
for s in "$@"; do
  p=$(echo $s | cut -d: -f1); n=$(echo $s | cut -d: -f2); pkg=$(echo $s | cut -d: -f3)
  src=/tmp/seed/$p-out/$n
  [ -f $src/patch.diff ] || { echo "NO $src"; continue; }
  if [ -z "$pkg" ]; then
    f=$(grep -m1 '^+++ b/' $src/patch.diff | sed 's#^+++ b/##'); pkg=$(dirname "$f" | sed 's#^src/diagonal.works/b6/\?##'); [ -z "$pkg" ] && pkg=.
  fi
  echo "######## $p $n pkg=$pkg"
  $V/tools/seedcheck.sh $p $src $pkg $n 2>&1 | grep -v conda
done
