#!/bin/sh
# Builds the b6vc engine offline from the vendored sources.
cd "$(dirname "$0")/engine" || exit 2
export GOPROXY=off GOSUMDB=off GOTOOLCHAIN=local GOFLAGS=-mod=vendor
mkdir -p ../bin
go build -o ../bin/b6vc ./cmd/b6vc
