package vc

import (
	"os"
	"fmt"
	"go/ast"
	"go/token"
	"go/types"
	"strings"

	"golang.org/x/tools/go/ssa"
)

const verifrtPath = ModulePath + "/verifrt"

func (x *Exec) call(fr *frame, st *State, cc *ssa.CallCommon, ins ssa.Instruction) Value {
	pos := ins.Pos()
	var resT types.Type
	if v, ok := ins.(ssa.Value); ok {
		resT = v.Type()
	}
	if b, ok := cc.Value.(*ssa.Builtin); ok {
		args := make([]Value, len(cc.Args))
		for i, a := range cc.Args {
			args[i] = x.operand(st, a)
		}
		return x.builtin(st, b.Name(), args, resT, pos)
	}
	if cc.IsInvoke() {
		recv := x.operand(st, cc.Value)
		args := make([]Value, len(cc.Args))
		for i, a := range cc.Args {
			args[i] = x.operand(st, a)
		}
		return x.invoke(fr, st, recv, cc.Method, args, resT, pos)
	}
	args := make([]Value, len(cc.Args))
	for i, a := range cc.Args {
		args[i] = x.operand(st, a)
	}
	if callee := cc.StaticCallee(); callee != nil {
		var bindings []Value
		if mc, ok := cc.Value.(*ssa.MakeClosure); ok {
			for _, b := range mc.Bindings {
				bindings = append(bindings, x.operand(st, b))
			}
		}
		return x.callFunc(fr, st, callee, args, bindings, resT, pos)
	}
	fv := x.operand(st, cc.Value)
	if fv.F == nil && len(fv.L) == 1 && fv.L[0].Op == "intlit" {
		if cl := x.closureTab[fv.L[0].Val.Int64()]; cl != nil {
			fv.F = cl // a known function value read back from memory
		}
	}
	if fv.F != nil {
		if fv.F.Recv != nil {
			args = append([]Value{*fv.F.Recv}, args...)
		}
		return x.callFunc(fr, st, fv.F.Fn, args, fv.F.Bindings, resT, pos)
	}
	x.Notes.Uncontracted["call through unknown function value at "+x.Prog.Pos(pos)] = true
	if traceCalls {
		fmt.Fprintf(os.Stderr, "TRACE %*sHAVOC dyncall of %s (%T) at %s\n", len(x.stack), "", cc.Value.Name(), cc.Value, x.Prog.Pos(pos))
	}
	res := x.havocCall(st, "dyncall", resT)
	if ct := x.rootContract; ct != nil && len(ct.DynSets) > 0 {
		env := &evalEnv{x: x, st: st, pkg: ct.Pkg.Types, vars: map[string]Value{}}
		for _, ds := range ct.DynSets {
			if gk, ok := x.ghostKeys[ds.By]; ok {
				st.Env[gk] = env.asInt(env.eval(ds.Expr))
			}
		}
	}
	return res
}

// callFunc dispatches a call to a known function.
var traceCalls = os.Getenv("B6VC_TRACE") != ""

func (x *Exec) callFunc(fr *frame, st *State, callee *ssa.Function, args []Value, bindings []Value, resT types.Type, pos token.Pos) Value {
	q := QualName(callee)
	if callee.Origin() != nil {
		q = QualName(callee.Origin())
	}
	for i := range args {
		if i < callee.Signature.Params().Len()+btoi(callee.Signature.Recv() != nil) {
			// keep static parameter types
		}
	}
	if v, ok := x.intrinsic(fr, st, q, callee, args, resT, pos); ok {
		return v
	}
	if x.isSpecFunc(callee) {
		return x.callSpec(st, callee, args)
	}
	if x.Opt.AssumeNoop[q] {
		x.Notes.Assumed["in this unit "+q+" is assumed to leave the modelled heap unchanged (unit option assume_noop); its result is arbitrary"] = true
		return x.freshResult(st, q, resT)
	}
	if ct := x.Prog.Contracts[q]; ct != nil && !x.Opt.NoContract[q] && !(x.Opt.InlineAll && callee.Blocks != nil) {
		if ct.Havoc {
			x.Notes.Uncontracted[q+" (havocked by its contract: nothing is assumed about it)"] = true
			return x.havocCall(st, q, resT)
		}
		return x.applyContract(st, ct, callee, args, resT, pos)
	}
	if callee.Blocks != nil && len(x.stack) < x.Opt.MaxInline && !x.onStack(callee) {
		if traceCalls {
			fmt.Fprintf(os.Stderr, "TRACE %*s%s\n", len(x.stack), "", q)
		}
		x.Notes.Inlined[q] = true
		return x.inline(st, callee, args, bindings)
	}
	if x.onStack(callee) && x.Opt.Paths && x.Opt.MaxRec > 0 && callee.Blocks != nil {
		// bounded recursion (path mode): inline up to MaxRec nested activations; deeper
		// recursion must be unreachable (unwinding assertion) or is cut (bounded)
		depth := 0
		for _, f := range x.stack {
			if f == callee {
				depth++
			}
		}
		if depth < x.Opt.MaxRec {
			x.Notes.Inlined[q] = true
			return x.inline(st, callee, args, bindings)
		}
		if x.Opt.UnwindMust {
			x.addObl(st, "unwind", "recursion."+callee.Name(), x.C.False(), pos, fmt.Sprintf("%s does not recurse deeper than %d activations", q, x.Opt.MaxRec))
		} else {
			x.Notes.Bounds[fmt.Sprintf("%s: recursion cut at depth %d", q, x.Opt.MaxRec)] = true
		}
		st.PC = x.C.False()
		return x.freshResult(st, q, resT)
	}
	if x.onStack(callee) {
		panic(unsupported("recursive call of " + q + " without a contract"))
	}
	x.Notes.Uncontracted[q] = true
	if traceCalls {
		fmt.Fprintf(os.Stderr, "TRACE %*sHAVOC %s (blocks=%v depth=%d)\n", len(x.stack), "", q, callee.Blocks != nil, len(x.stack))
	}
	return x.havocCall(st, q, resT)
}

func btoi(b bool) int {
	if b {
		return 1
	}
	return 0
}

func (x *Exec) onStack(fn *ssa.Function) bool {
	for _, f := range x.stack {
		if f == fn {
			return true
		}
	}
	return false
}

// inline executes the callee body in the caller's state.
func (x *Exec) inline(st *State, callee *ssa.Function, args []Value, bindings []Value) Value {
	if x.pathInline && x.specMode == 0 {
		panic(&inlineRequest{callee: callee, args: args, bindings: bindings})
	}
	nfr := &frame{fn: callee, args: args, bindings: bindings}
	if ct := x.Prog.Contracts[QualName(callee)]; ct != nil {
		nfr.contract = ct // loop unroll hints still apply
	}
	sub := &State{PC: st.PC, Heap: st.Heap, Alloc: st.Alloc, Env: map[ssa.Value]Value{}}
	x.copyGhost(st.Env, sub.Env)
	// parameter types follow the callee's signature
	for i, p := range callee.Params {
		if i < len(args) {
			args[i].T = p.Type()
		}
	}
	x.stack = append(x.stack, callee)
	res, out := x.ExecFunc(nfr, sub)
	x.stack = x.stack[:len(x.stack)-1]
	st.PC, st.Heap, st.Alloc = out.PC, out.Heap, out.Alloc
	x.copyGhost(out.Env, st.Env)
	return res
}

// havocCall models a call about which nothing is known: every heap component
// is replaced by a fresh one and the result is arbitrary.
func (x *Exec) havocCall(st *State, name string, resT types.Type) Value {
	st.Heap.forgetMaps()
	for k := range st.Heap.comps {
		st.Heap.comps[k] = x.C.Fresh("havoc$"+k, compSort(k, x.compSorts[k]))
	}
	na := x.C.Fresh("alloc", IntSort)
	x.assume(st, x.C.IntCmp(">=", na, st.Alloc))
	st.Alloc = na
	return x.freshResult(st, name, resT)
}

func (x *Exec) freshResult(st *State, name string, resT types.Type) Value {
	if resT == nil {
		return Value{}
	}
	if tup, ok := resT.(*types.Tuple); ok {
		if tup.Len() == 0 {
			return Value{}
		}
		out := Value{T: resT}
		for i := 0; i < tup.Len(); i++ {
			v := x.FreshValue(fmt.Sprintf("%s$r%d", name, i), tup.At(i).Type())
			x.assume(st, x.wf(v, st.Alloc))
			out.Tuple = append(out.Tuple, v)
		}
		return out
	}
	v := x.FreshValue(name+"$r", resT)
	x.assume(st, x.wf(v, st.Alloc))
	return v
}

// ---------------------------------------------------------------- builtins

func (x *Exec) builtin(st *State, name string, args []Value, resT types.Type, pos token.Pos) Value {
	c := x.C
	switch name {
	case "len", "cap":
		v := args[0]
		switch u := v.T.Underlying().(type) {
		case *types.Slice:
			if name == "len" {
				return Value{T: resT, L: []*Term{v.L[2]}}
			}
			return Value{T: resT, L: []*Term{v.L[3]}}
		case *types.Basic:
			return Value{T: resT, L: []*Term{c.App(x.strLenFn(), v.L[0])}}
		case *types.Array:
			return Value{T: resT, L: []*Term{c.BVI(u.Len(), 64)}}
		case *types.Pointer:
			if at, ok := u.Elem().Underlying().(*types.Array); ok {
				return Value{T: resT, L: []*Term{c.BVI(at.Len(), 64)}}
			}
		case *types.Map:
			if keys, ok := st.Heap.mapKeys[v.L[0].ID]; ok && x.Opt.Paths {
				// every entry is known on this path: count the keys that are still present
				pn, ps := x.mapPresent(st, u)
				n, decided := int64(0), true
				for _, k := range keys {
					present := c.Select(c.Select(x.comp(st, pn, ps), v.L[0]), x.mapKey(u, k))
					if present.IsTrue() {
						n++
					} else if !present.IsFalse() {
						decided = false
					}
				}
				if decided {
					return Value{T: resT, L: []*Term{c.BVI(n, 64)}}
				}
			}
			f := c.DeclareFun("map.len", []*Sort{RefSort, IntSort}, IdxSort)
			x.Notes.Assumed["len(map) is an uninterpreted function of the map and an update counter"] = true
			ln := c.App(f, v.L[0], c.Fresh("maplen.epoch", IntSort))
			x.assume(st, c.BVCmp("bvsle", c.BVI(0, 64), ln))
			return Value{T: resT, L: []*Term{ln}}
		}
		panic(unsupported("len/cap of " + v.T.String()))
	case "append":
		return x.appendOp(st, args[0], args[1], resT)
	case "copy":
		return x.copyOp(st, args[0], args[1], resT)
	case "delete":
		x.mapDelete(st, args[0], args[1])
		return Value{}
	case "min", "max":
		v := args[0]
		for _, a := range args[1:] {
			var lt *Term
			if isSigned(v.T) {
				lt = c.BVCmp("bvslt", a.L[0], v.L[0])
			} else {
				lt = c.BVCmp("bvult", a.L[0], v.L[0])
			}
			if name == "max" {
				lt = c.Not(c.Or(lt, c.Eq(a.L[0], v.L[0])))
			}
			v = Value{T: v.T, L: []*Term{c.Ite(lt, a.L[0], v.L[0])}}
		}
		return v
	case "print", "println":
		return Value{}
	case "ssa:wrapnilchk":
		x.nilCheck(st, args[0], pos)
		return args[0]
	}
	panic(unsupported("builtin " + name))
}

// appendOp implements append(s, t...) with Go's aliasing semantics.
func (x *Exec) appendOp(st *State, s, t Value, resT types.Type) Value {
	c := x.C
	sl := resT.Underlying().(*types.Slice)
	elem := sl.Elem()
	lay := LayoutOf(elem)
	if isString(t.T) {
		panic(unsupported("append of string to []byte"))
	}
	s.T = resT
	sb, so, sn, sc := sliceParts(s)
	tb, to, tn, _ := sliceParts(t)
	if tn.IsLit() && tn.Val.Sign() == 0 {
		return s
	}
	newLen := c.BVBin("bvadd", sn, tn)
	fits := c.BVCmp("bvsle", newLen, sc)
	if pcHas(st.PC, fits) { // the executor forked on the capacity test
		fits = c.True()
	} else if pcHas(st.PC, c.Not(fits)) {
		fits = c.False()
	}
	x.noteSliceWrite(st, elem, sb, fits, x.curPos)
	// source elements are read from the heap before the append
	pre := st.Heap.clone()
	preSt := &State{PC: st.PC, Heap: pre, Alloc: st.Alloc, Env: st.Env}
	// fresh array for the reallocating case
	nb := x.Allocate(st)
	ncap := c.Fresh("append.cap", IdxSort)
	if x.Opt.AppendDouble {
		// bounded lemmas: a reallocating append doubles the needed length (one concrete growth
		// policy instead of an arbitrary capacity, which would fork every later append)
		ncap = c.BVBin("bvadd", newLen, newLen)
		x.Notes.Bounds["append growth fixed to cap = 2*len on reallocation (one concrete policy)"] = true
	}
	x.assume(st, c.And(c.BVCmp("bvsle", newLen, ncap), c.BVCmp("bvsle", ncap, c.BVU(1<<48, 64))))
	x.assume(st, c.BVCmp("bvsle", newLen, c.BVU(1<<48, 64)))
	for k, lf := range lay.Leaves {
		name := sliceComp(elem, k)
		h := x.comp(preSt, name, lf.Sort)
		st.Heap.comps[name] = h
		srcS := c.Select(h, sb)
		srcT := c.Select(h, tb)
		var inPlace, moved *Term
		if tn.IsLit() && (tn.Val.Int64() <= 8 || x.Opt.Paths && tn.Val.Int64() <= 512) {
			inPlace = srcS
			if x.Opt.Paths && sn.IsLit() && so.IsLit() && sn.Val.Int64() <= 1024 {
				// concrete shape (path mode): the reallocated array is written out element by element,
				// so later reads fold to the values stored
				moved = c.ConstArray(ArraySort(IdxSort, lf.Sort), x.zeroLeaf(lf.Sort))
				for e := int64(0); e < sn.Val.Int64(); e++ {
					moved = c.Store(moved, c.BVI(e, 64), c.Select(srcS, c.BVBin("bvadd", so, c.BVI(e, 64))))
				}
			} else {
				moved = c.Fresh("append.new", ArraySort(IdxSort, lf.Sort))
				// moved[i] = s[i] for i < len(s)
				i := c.Var("q$a", IdxSort)
				x.assume(st, c.Forall([]*Term{i}, c.Implies(c.And(c.BVCmp("bvsle", c.BVI(0, 64), i), c.BVCmp("bvslt", i, sn)),
					c.Eq(c.Select(moved, i), c.Select(srcS, c.BVBin("bvadd", so, i)))), c.Select(moved, i)))
			}
			for e := int64(0); e < tn.Val.Int64(); e++ {
				ev := c.Select(srcT, c.BVBin("bvadd", to, c.BVI(e, 64)))
				inPlace = c.Store(inPlace, c.BVBin("bvadd", c.BVBin("bvadd", so, sn), c.BVI(e, 64)), ev)
				moved = c.Store(moved, c.BVBin("bvadd", sn, c.BVI(e, 64)), ev)
			}
		} else {
			inPlace = c.Fresh("append.inplace", ArraySort(IdxSort, lf.Sort))
			moved = c.Fresh("append.new", ArraySort(IdxSort, lf.Sort))
			i := c.Var("q$a", IdxSort)
			dst0 := c.BVBin("bvadd", so, sn)
			inRange := c.And(c.BVCmp("bvsle", dst0, i), c.BVCmp("bvslt", i, c.BVBin("bvadd", dst0, tn)))
			x.assume(st, c.Forall([]*Term{i}, c.Eq(c.Select(inPlace, i), c.Ite(inRange, c.Select(srcT, c.BVBin("bvadd", to, c.BVBin("bvsub", i, dst0))), c.Select(srcS, i))), c.Select(inPlace, i)))
			x.assume(st, c.Forall([]*Term{i}, c.Implies(c.And(c.BVCmp("bvsle", c.BVI(0, 64), i), c.BVCmp("bvslt", i, newLen)),
				c.Eq(c.Select(moved, i), c.Ite(c.BVCmp("bvslt", i, sn), c.Select(srcS, c.BVBin("bvadd", so, i)), c.Select(srcT, c.BVBin("bvadd", to, c.BVBin("bvsub", i, sn)))))), c.Select(moved, i)))
		}
		x.setComp(st, name, lf.Sort, c.Ite(fits, c.Store(h, sb, inPlace), c.Store(h, nb, moved)))
	}
	return x.mkSlice(resT, c.Ite(fits, sb, nb), c.Ite(fits, so, c.BVI(0, 64)), newLen, c.Ite(fits, sc, ncap))
}

func (x *Exec) copyOp(st *State, d, s Value, resT types.Type) Value {
	c := x.C
	if isString(s.T) {
		// copy(dst []byte, src string): dst[do+i] = src[i] for i < min(len(dst), len(src))
		elem := d.T.Underlying().(*types.Slice).Elem()
		db, do, dn, _ := sliceParts(d)
		sn := c.App(x.strLenFn(), s.L[0])
		n := c.Ite(c.BVCmp("bvslt", dn, sn), dn, sn)
		x.noteSliceWrite(st, elem, db, c.BVCmp("bvsgt", n, c.BVI(0, 64)), x.curPos)
		name := sliceComp(elem, 0)
		h := x.comp(st, name, BV(8))
		dst := c.Select(h, db)
		var nd *Term
		if n.IsLit() && (n.Val.Int64() <= 8 || x.Opt.Paths && n.Val.Int64() <= 512) {
			nd = dst
			for e := int64(0); e < n.Val.Int64(); e++ {
				nd = c.Store(nd, c.BVBin("bvadd", do, c.BVI(e, 64)), c.App(x.strAtFn(), s.L[0], c.BVI(e, 64)))
			}
		} else {
			nd = c.Fresh("copy.dst", ArraySort(IdxSort, BV(8)))
			i := c.Var("q$c", IdxSort)
			inRange := c.And(c.BVCmp("bvsle", do, i), c.BVCmp("bvslt", i, c.BVBin("bvadd", do, n)))
			x.assume(st, c.Forall([]*Term{i}, c.Eq(c.Select(nd, i), c.Ite(inRange, c.App(x.strAtFn(), s.L[0], c.BVBin("bvsub", i, do)), c.Select(dst, i))), c.Select(nd, i)))
		}
		x.setComp(st, name, BV(8), c.Store(h, db, nd))
		return Value{T: resT, L: []*Term{n}}
	}
	elem := d.T.Underlying().(*types.Slice).Elem()
	lay := LayoutOf(elem)
	db, do, dn, _ := sliceParts(d)
	sb, so, sn, _ := sliceParts(s)
	n := c.Ite(c.BVCmp("bvslt", dn, sn), dn, sn)
	x.noteSliceWrite(st, elem, db, c.BVCmp("bvsgt", n, c.BVI(0, 64)), x.curPos)
	for k, lf := range lay.Leaves {
		name := sliceComp(elem, k)
		h := x.comp(st, name, lf.Sort)
		src := c.Select(h, sb)
		dst := c.Select(h, db)
		var nd *Term
		if n.IsLit() && (n.Val.Int64() <= 8 || x.Opt.Paths && n.Val.Int64() <= 512) {
			nd = dst
			for e := int64(0); e < n.Val.Int64(); e++ {
				nd = c.Store(nd, c.BVBin("bvadd", do, c.BVI(e, 64)), c.Select(src, c.BVBin("bvadd", so, c.BVI(e, 64))))
			}
		} else {
			nd = c.Fresh("copy.dst", ArraySort(IdxSort, lf.Sort))
			i := c.Var("q$c", IdxSort)
			inRange := c.And(c.BVCmp("bvsle", do, i), c.BVCmp("bvslt", i, c.BVBin("bvadd", do, n)))
			x.assume(st, c.Forall([]*Term{i}, c.Eq(c.Select(nd, i), c.Ite(inRange, c.Select(src, c.BVBin("bvadd", so, c.BVBin("bvsub", i, do))), c.Select(dst, i))), c.Select(nd, i)))
		}
		x.setComp(st, name, lf.Sort, c.Store(h, db, nd))
	}
	return Value{T: resT, L: []*Term{n}}
}

// ---------------------------------------------------------------- intrinsics and trusted stdlib models

func (x *Exec) intrinsic(fr *frame, st *State, q string, callee *ssa.Function, args []Value, resT types.Type, pos token.Pos) (Value, bool) {
	c := x.C
	switch q {
	case "sync/atomic.AddUint64", "sync/atomic.AddUint32", "sync/atomic.AddInt64", "sync/atomic.AddInt32":
		// sequential semantics: *addr += delta, returns the new value (no concurrency is modelled)
		if len(args) == 2 {
			pt := args[0].T.Underlying().(*types.Pointer)
			old := x.Load(st, args[0], pt.Elem())
			d := args[1]
			d.T = pt.Elem()
			nv := x.binop(st, token.ADD, old, d, pt.Elem(), pos)
			nv.T = pt.Elem()
			x.StoreVal(st, args[0], nv)
			x.Notes.Assumed[q+": sequential semantics (*addr += delta); interleavings are not modelled"] = true
			return nv, true
		}
	case "sort.Search":
		// Assumed contract of sort.Search(n, f) (the postcondition of binary search, valid for every
		// deterministic side-effect free predicate): the result r satisfies 0 <= r <= n,
		// r > 0 ==> !f(r-1) and r < n ==> f(r). The closure is evaluated symbolically: once at an
		// arbitrary index in [0,n) for its own safety obligations, then at r-1 and r for the facts.
		if len(args) == 2 && args[1].F != nil && x.specMode == 0 && !x.Opt.Paths {
			n := x.toIdx(args[0])
			callAt := func(idx *Term, cond *Term, np bool) *Term {
				sub := st.snapshot()
				sub.PC = c.And(st.PC, cond)
				saveNP := x.Opt.NoPanic
				if !np {
					x.Opt.NoPanic = false
				}
				a := []Value{{T: types.Typ[types.Int], L: []*Term{idx}}}
				if args[1].F.Recv != nil {
					a = append([]Value{*args[1].F.Recv}, a...)
				}
				v := x.inline(sub, args[1].F.Fn, a, args[1].F.Bindings)
				x.Opt.NoPanic = saveNP
				if !np {
					// facts established while evaluating the predicate (callee contracts) hold
					// whenever this evaluation is meaningful
					x.assume(st, c.Implies(cond, sub.PC))
				}
				return v.L[0]
			}
			h := c.Fresh("sort.Search$h", IdxSort)
			callAt(h, c.And(c.BVCmp("bvsle", c.BVI(0, 64), h), c.BVCmp("bvslt", h, n)), true)
			r := c.Fresh("sort.Search$r", IdxSort)
			x.assume(st, c.And(c.BVCmp("bvsle", c.BVI(0, 64), r), c.BVCmp("bvsle", r, n)))
			rm1 := c.BVBin("bvsub", r, c.BVI(1, 64))
			gt0 := c.BVCmp("bvslt", c.BVI(0, 64), r)
			ltn := c.BVCmp("bvslt", r, n)
			f1 := callAt(rm1, gt0, false)
			f2 := callAt(r, ltn, false)
			x.assume(st, c.Implies(gt0, c.Not(f1)))
			x.assume(st, c.Implies(ltn, f2))
			x.Notes.Assumed["sort.Search: assumed contract (binary-search postcondition): 0 <= r <= n, r > 0 ==> !f(r-1), r < n ==> f(r); the predicate closure is evaluated symbolically and assumed deterministic and side-effect free"] = true
			return Value{T: types.Typ[types.Int], L: []*Term{r}}, true
		}
	case verifrtPath + ".Assume":
		x.assume(st, args[0].L[0])
		return Value{}, true
	case verifrtPath + ".Assert":
		text := "assert"
		if len(args) > 1 {
			for s, t := range x.strLits {
				if t == args[1].L[0] {
					text = s
				}
			}
		}
		x.addObl(st, "lemma", sanitize(text), args[0].L[0], pos, text)
		x.assume(st, args[0].L[0])
		return Value{}, true
	case verifrtPath + ".Ghost":
		for s, t := range x.strLits {
			if t == args[0].L[0] {
				x.ghost[s] = args[1]
			}
		}
		return Value{}, true
	case verifrtPath + ".Cover":
		sub := &State{PC: c.And(st.PC, args[0].L[0]), Heap: st.Heap, Alloc: st.Alloc}
		x.addCover(sub, "explicit", pos, "cover point is reachable")
		return Value{}, true
	}
	if isNoopCallee(q) {
		x.Notes.Assumed[q+": no effect on modelled state (locks are not modelled; sequential semantics only)"] = true
		return Value{}, true
	}
	switch q {
	case "fmt.Errorf", "errors.New":
		// a non-nil error value with an opaque payload
		x.Notes.Assumed[q+": returns a non-nil error; message not modelled"] = true
		ref := x.Allocate(st)
		return Value{T: resT, L: []*Term{x.typeID(types.NewPointer(types.Universe.Lookup("error").Type())), ref}}, true
	case "fmt.Sprintf", "fmt.Sprint":
		x.Notes.Assumed[q+": result is an arbitrary string"] = true
		return x.freshResult(st, "sprintf", resT), true
	case "log.Printf", "log.Println", "log.Print":
		return Value{}, true
	case "reflect.ValueOf":
		// an opaque reflect.Value that remembers which interface value it was made from
		if len(args) == 1 && len(args[0].L) == 2 {
			v := x.freshResult(st, "reflect.ValueOf", resT)
			if x.reflectOf == nil {
				x.reflectOf = map[int]Value{}
			}
			if len(v.L) > 0 {
				x.reflectOf[v.L[0].ID] = args[0]
			}
			return v, true
		}
	case "reflect.Value.Comparable":
		// decided when every dynamic type inside the value is known on this path
		if len(args) == 1 && len(args[0].L) > 0 {
			if iv, ok := x.reflectOf[args[0].L[0].ID]; ok {
				if x.unhashableDyn(iv.L[0], iv.L[1]) != nil {
					return Value{T: resT, L: []*Term{c.False()}}, true
				}
				if iv.L[0].Op == "intlit" && x.groundLit(iv.L[1]) {
					return Value{T: resT, L: []*Term{c.True()}}, true
				}
			}
			return x.freshResult(st, "reflect.Comparable", resT), true
		}
	case "strings.HasPrefix":
		// s starts with prefix: pure. Both literal: decided here; literal prefix: its length and
		// bytes compared one by one; otherwise the standard library body is used if loaded.
		if len(args) == 2 && len(args[0].L) == 1 && len(args[1].L) == 1 {
			lit := func(t *Term) (string, bool) {
				for k, v := range x.strLits {
					if v == t {
						return k, true
					}
				}
				return "", false
			}
			if p, ok := lit(args[1].L[0]); ok && len(p) <= 32 {
				if sv, ok := lit(args[0].L[0]); ok {
					return Value{T: resT, L: []*Term{c.Bool(strings.HasPrefix(sv, p))}}, true
				}
				fs := []*Term{c.BVCmp("bvsge", c.App(x.strLenFn(), args[0].L[0]), c.BVI(int64(len(p)), 64))}
				for i := 0; i < len(p); i++ {
					fs = append(fs, c.Eq(c.App(x.strAtFn(), args[0].L[0], c.BVI(int64(i), 64)), c.BVU(uint64(p[i]), 8)))
				}
				return Value{T: resT, L: []*Term{c.And(fs...)}}, true
			}
		}
		return Value{}, false
	case "math/bits.Len":
		// number of bits needed to represent x (uint is 64 bits wide here); bit-vector mode only
		if len(args) == 1 && len(args[0].L) == 1 && args[0].L[0].Sort.Kind == SBV && args[0].L[0].Sort.W == 64 {
			c := x.C
			r := c.BVI(0, 64)
			for k := 0; k < 64; k++ {
				r = c.Ite(c.BVCmp("bvuge", args[0].L[0], c.BVU(1<<uint(k), 64)), c.BVI(int64(k+1), 64), r)
			}
			return Value{T: resT, L: []*Term{r}}, true
		}
		return Value{}, false
	case "math/bits.LeadingZeros64", "math/bits.TrailingZeros64", "math/bits.Len64":
		return Value{}, false // inline their bodies if loaded
	}
	return Value{}, false
}

// ---------------------------------------------------------------- interface method calls

func (x *Exec) invoke(fr *frame, st *State, recv Value, m *types.Func, args []Value, resT types.Type, pos token.Pos) Value {
	c := x.C
	// statically known dynamic type?
	if recv.L[0].Op == "intlit" {
		for k, id := range x.typeIDs {
			if int64(id) == recv.L[0].Val.Int64() {
				if t := x.typeByKey(k); t != nil {
					if fn := x.Prog.SSA.LookupMethod(t, m.Pkg(), m.Name()); fn != nil {
						rv := x.unbox(st, recv, t)
						return x.callFunc(fr, st, fn, append([]Value{rv}, args...), nil, resT, pos)
					}
				}
			}
		}
	}
	// ite-dispatch over candidate tags (a value merged from few concrete types)
	if tags := candidateTags(recv.L[0]); len(tags) > 0 && len(tags) <= 6 {
		type alt struct {
			cond *Term
			st   *State
			val  Value
		}
		var alts []alt
		covered := []*Term{}
		for _, tg := range tags {
			var t types.Type
			for k, id := range x.typeIDs {
				if int64(id) == tg {
					t = x.typeByKey(k)
				}
			}
			if t == nil {
				continue
			}
			fn := x.Prog.SSA.LookupMethod(t, m.Pkg(), m.Name())
			if fn == nil {
				continue
			}
			cond := c.Eq(recv.L[0], c.IntLit(tg))
			covered = append(covered, cond)
			sub := st.snapshot()
			sub.PC = c.And(st.PC, cond)
			rv := x.unbox(sub, recv, t)
			cargs := append([]Value{rv}, args...)
			val := x.callFunc(fr, sub, fn, cargs, nil, resT, pos)
			alts = append(alts, alt{cond, sub, val})
		}
		if len(alts) == len(tags) {
			x.boundsObl(st, "nil", c.Or(covered...), pos, "method call on non-nil interface of a known dynamic type")
			var rets []retPoint
			for _, a := range alts {
				rets = append(rets, retPoint{st: a.st, val: a.val})
			}
			val, out := x.mergeReturns(nil, rets)
			st.PC, st.Heap, st.Alloc = out.PC, out.Heap, out.Alloc
			return val
		}
	}
	x.boundsObl(st, "nil", c.Distinct(recv.L[0], c.IntLit(0)), pos, "method call on non-nil interface")
	// interface-level contract
	iq := ifaceMethodName(recv.T, m)
	ct := x.Prog.Contracts[iq]
	if ct == nil {
		// contract on the interface that declares the method (e.g. b6.Identifiable.FeatureID)
		if sig, ok := m.Type().(*types.Signature); ok && sig.Recv() != nil {
			if dq := ifaceMethodName(sig.Recv().Type(), m); dq != iq {
				ct = x.Prog.Contracts[dq]
			}
		}
	}
	if ct != nil {
		x.ifaceMethod = m
		defer func() { x.ifaceMethod = nil }()
		return x.applyContract(st, ct, nil, append([]Value{recv}, args...), resT, pos)
	}
	x.Notes.Uncontracted["invoke "+iq] = true
	return x.havocCall(st, "invoke."+m.Name(), resT)
}

func ifaceMethodName(t types.Type, m *types.Func) string {
	if n, ok := t.(*types.Named); ok && n.Obj().Pkg() != nil {
		return n.Obj().Pkg().Path() + "." + n.Obj().Name() + "." + m.Name()
	}
	return "interface." + m.Name()
}

func candidateTags(t *Term) []int64 {
	var out []int64
	seen := map[int64]bool{}
	var rec func(t *Term) bool
	rec = func(t *Term) bool {
		switch t.Op {
		case "intlit":
			if !seen[t.Val.Int64()] {
				seen[t.Val.Int64()] = true
				if t.Val.Sign() != 0 {
					out = append(out, t.Val.Int64())
				}
			}
			return true
		case "ite":
			return rec(t.Args[1]) && rec(t.Args[2])
		}
		return false
	}
	if !rec(t) {
		return nil
	}
	return out
}

var typeByKeyCache = map[string]types.Type{}

func (x *Exec) typeByKey(k string) types.Type { return typeByKeyCache[k] }

func init() {
	// populated by typeID registration
}

// registerType remembers the Go type behind a type key.
func (x *Exec) registerType(t types.Type) { typeByKeyCache[typeKey(t)] = t }

// ---------------------------------------------------------------- contracts

func (x *Exec) contractEnv(ct *Contract, callee *ssa.Function, args []Value, st, old *State) *evalEnv {
	env := &evalEnv{x: x, st: st, old: old, pkg: ct.Pkg.Types, vars: map[string]Value{}}
	if callee != nil && len(callee.Params) == 0 && callee.Signature.Params().Len() > 0 {
		// a function known only from export data (no body, no SSA parameters): bind by signature
		sig := callee.Signature
		off := 0
		if sig.Recv() != nil {
			off = 1
			if len(args) > 0 {
				env.vars["self"] = args[0]
			}
		}
		for i := 0; i < sig.Params().Len() && i+off < len(args); i++ {
			p := sig.Params().At(i)
			if p.Name() != "" && p.Name() != "_" {
				a := args[i+off]
				a.T = p.Type()
				env.vars[p.Name()] = a
			}
		}
	} else if callee != nil {
		for i, p := range callee.Params {
			if i < len(args) {
				a := args[i]
				a.T = p.Type()
				env.vars[p.Name()] = a
			}
		}
	} else if m := x.ifaceMethod; m != nil && len(args) > 0 {
		// interface-level contract: the receiver is "self", parameters by their declared names
		env.vars["self"] = args[0]
		if sig, ok := m.Type().(*types.Signature); ok {
			for i := 0; i < sig.Params().Len() && i+1 < len(args); i++ {
				p := sig.Params().At(i)
				if p.Name() != "" && p.Name() != "_" {
					a := args[i+1]
					a.T = p.Type()
					env.vars[p.Name()] = a
				}
			}
		}
	}
	return env
}

// applyContract replaces a call by the callee's contract.
func (x *Exec) applyContract(st *State, ct *Contract, callee *ssa.Function, args []Value, resT types.Type, pos token.Pos) Value {
	if !ct.Pure {
		st.Heap.forgetMaps() // the callee may change maps behind the executor's back
	}
	c := x.C
	name := ct.Func
	if ct.Trusted || ct.Function {
		x.Notes.Assumed["contract of "+name+" (trusted, "+ct.Pos+")"] = true
	} else {
		x.Notes.Inlined["(by contract) "+name] = true
		if x.Notes.Used == nil {
			x.Notes.Used = map[string]bool{}
		}
		x.Notes.Used[name] = true
	}
	if callee == nil {
		callee = x.Prog.FuncByName(name)
	}
	old := st.snapshot()
	env := x.contractEnv(ct, callee, args, st, nil)
	// ghost arguments supplied by the caller through verifrt.Ghost bindings
	for _, g := range ct.Ghost {
		if v, ok := x.ghost[name+"."+g.Name]; ok {
			env.vars[g.Name] = v
		} else if v, ok := x.ghost[g.Name]; ok {
			env.vars[g.Name] = v
		} else {
			t := env.lookupType(g.Type)
			if t == nil {
				panic(fmt.Errorf("contract %s: unknown ghost type", name))
			}
			// existential ghost: left as a fresh symbol constrained only by requires (sound only if requires determines it)
			panic(fmt.Errorf("contract %s: ghost %s not bound at call %s", name, g.Name, x.Prog.Pos(pos)))
		}
	}
	short := name[strings.LastIndex(name, "/")+1:]
	pcBefore := st.PC
	if len(ct.Ensures) > 0 && !x.Opt.Paths {
		defer func() { x.addCallCover(st, pcBefore, short, pos) }()
	}
	for _, r := range ct.Requires {
		g := env.evalBool(r.Expr)
		x.addObl(st, "pre", short, g, pos, "requires "+r.Text+"  (callee "+name+")")
		x.assume(st, g)
	}
	// havoc the modifies frame
	for _, m := range ct.Modifies {
		x.havocTarget(env, st, m)
	}
	// ghost fields the callee may change (ghavoc <field> <object>): arbitrary new value
	for _, g := range ct.GHavocs {
		o := env.eval(g.Obj.Expr)
		h := x.comp(st, ghostComp(g.Field), IdxSort)
		x.setComp(st, ghostComp(g.Field), IdxSort, c.Store(h, x.objRef(o), c.Fresh("ghavoc."+g.Field, IdxSort)))
	}
	if !ct.Pure && len(ct.Modifies) == 0 && false {
		_ = c
	}
	// allocation may have happened (a pure callee returns no reference to memory it allocated,
	// so the watermark is kept and references stay syntactically comparable)
	if !(ct.Pure && len(ct.Modifies) == 0 && !hasRefResult(resT)) {
		na := x.C.Fresh("alloc", IntSort)
		x.assume(st, x.C.IntCmp(">=", na, st.Alloc))
		st.Alloc = na
	}
	var res Value
	if resT != nil && (ct.Function || len(ct.Ensures) == 0 && ct.Pure && allScalar(args)) {
		res = x.pureCallT(ct, args, resT)
		x.assume(st, x.wfValueOrTuple(res, st.Alloc))
	} else {
		res = x.freshResult(st, short, resT)
	}
	post := x.contractEnv(ct, callee, args, st, old)
	for k, v := range env.vars {
		if _, ok := post.vars[k]; !ok {
			post.vars[k] = v
		}
	}
	bindResult(post, callee, res)
	for _, en := range ct.Ensures {
		x.assume(st, post.evalBool(en.Expr))
	}
	for _, gs := range ct.Sets {
		if gk, ok := x.ghostKeys[gs.By]; ok {
			st.Env[gk] = post.eval(gs.Expr)
		}
	}
	// ghost field updates: all values are evaluated before any is stored
	if len(ct.GSets) > 0 {
		type upd struct {
			fld      string
			ref, val *Term
		}
		var ups []upd
		for _, g := range ct.GSets {
			o := post.eval(g.Obj.Expr)
			v := post.asInt(post.eval(g.Val.Expr))
			ups = append(ups, upd{g.Field, x.objRef(o), x.toIdx(v)})
		}
		for _, u := range ups {
			h := x.comp(st, ghostComp(u.fld), IdxSort)
			x.setComp(st, ghostComp(u.fld), IdxSort, c.Store(h, u.ref, u.val))
		}
	}
	return res
}

func bindResult(env *evalEnv, fn *ssa.Function, res Value) {
	if len(res.Tuple) > 0 {
		for i, r := range res.Tuple {
			env.vars[fmt.Sprintf("result%d", i)] = r
		}
	} else if len(res.L) > 0 {
		env.vars["result"] = res
		env.vars["result0"] = res
	}
	if fn != nil {
		rs := fn.Signature.Results()
		for i := 0; i < rs.Len(); i++ {
			if n := rs.At(i).Name(); n != "" && n != "_" {
				if len(res.Tuple) > 0 {
					env.vars[n] = res.Tuple[i]
				} else {
					env.vars[n] = res
				}
			}
		}
	}
}

// havocTarget havocs the memory named by a modifies clause: a slice expression
// (its elements, optionally a sub-range) or *p (the object's leaves).
func (x *Exec) havocTarget(env *evalEnv, st *State, m *Clause) {
	c := x.C
	if se, ok := m.Expr.(*ast.StarExpr); ok {
		p := env.eval(se.X)
		pt := p.T.Underlying().(*types.Pointer)
		v := x.FreshValue("mod", pt.Elem())
		x.assume(st, x.wf(v, st.Alloc))
		x.StoreVal(st, p, v)
		return
	}
	v := env.eval(m.Expr)
	sl, ok := v.T.Underlying().(*types.Slice)
	if !ok {
		panic(fmt.Errorf("modifies clause %q: need a slice or *pointer", m.Text))
	}
	base, off, ln, _ := sliceParts(v)
	lay := LayoutOf(sl.Elem())
	x.noteSliceWrite(st, sl.Elem(), base, nil, x.curPos)
	for k, lf := range lay.Leaves {
		name := sliceComp(sl.Elem(), k)
		h := x.comp(st, name, lf.Sort)
		old := c.Select(h, base)
		nw := c.Fresh("mod.arr", ArraySort(IdxSort, lf.Sort))
		i := c.Var("q$m", IdxSort)
		// outside [off, off+len) nothing changes
		x.assume(st, c.Forall([]*Term{i}, c.Implies(c.Not(c.And(c.BVCmp("bvsle", off, i), c.BVCmp("bvslt", i, c.BVBin("bvadd", off, ln)))), c.Eq(c.Select(nw, i), c.Select(old, i))), c.Select(nw, i)))
		x.setComp(st, name, lf.Sort, c.Store(h, base, nw))
	}
}

// checkPost emits the postcondition obligations at a return point.
func (x *Exec) checkPost(fr *frame, st *State, res Value, pos token.Pos) {
	ct := fr.contract
	if ct == nil {
		return
	}
	env := x.contractEnv(ct, fr.fn, fr.args, st, fr.entry)
	for k, v := range x.ghost {
		env.vars[k] = v
	}
	// a closure verified as a unit: captured variables denote their values on entry
	if fr.verify && fr.entry != nil {
		for i, fv := range fr.fn.FreeVars {
			if pt, ok := fv.Type().Underlying().(*types.Pointer); ok && i < len(fr.bindings) {
				if _, shadow := env.vars[fv.Name()]; !shadow {
					env.vars[fv.Name()] = x.Load(scratch(fr.entry), fr.bindings[i], pt.Elem())
				}
			}
		}
	}
	bindResult(env, fr.fn, res)
	for i, en := range ct.Ensures {
		g := env.evalBool(en.Expr)
		x.addObl(st, "post", fmt.Sprint(i+1), g, pos, "ensures "+en.Text)
	}
	x.addCover(st, "return", pos, "return point reachable under the precondition")
}

// localResolver resolves source-level names to SSA values at block b.
func (x *Exec) localResolver(fr *frame, st *State, b *ssa.BasicBlock) func(string) (Value, bool) {
	return func(name string) (Value, bool) {
		// phis of this block carry the variable name as comment
		for _, ins := range b.Instrs {
			phi, ok := ins.(*ssa.Phi)
			if !ok {
				break
			}
			if phi.Comment == name {
				if v, ok := st.Env[phi]; ok {
					return v, true
				}
			}
		}
		for i, p := range fr.fn.Params {
			if p.Name() == name {
				a := fr.args[i]
				a.T = p.Type()
				// a parameter that is reassigned in the body shows up as a DebugRef to a newer value; prefer that below
				if v, ok := x.debugRefLookup(fr, st, b, name); ok {
					return v, true
				}
				return a, true
			}
		}
		if v, ok := x.debugRefLookup(fr, st, b, name); ok {
			return v, true
		}
		for i, fv := range fr.fn.FreeVars {
			if fv.Name() == name && i < len(fr.bindings) {
				p := fr.bindings[i]
				return x.Load(scratch(st), p, p.T.Underlying().(*types.Pointer).Elem()), true
			}
		}
		return Value{}, false
	}
}

// debugRefLookup finds the value bound to source variable name whose definition dominates b most closely.
func (x *Exec) debugRefLookup(fr *frame, st *State, b *ssa.BasicBlock, name string) (Value, bool) {
	var best ssa.Value
	var bestAddr bool
	bestDepth := -1
	for _, blk := range fr.fn.Blocks {
		if !(blk == b || blk.Dominates(b)) {
			continue
		}
		depth := 0
		for d := blk; d != nil; d = d.Idom() {
			depth++
		}
		for _, ins := range blk.Instrs {
			dr, ok := ins.(*ssa.DebugRef)
			if !ok {
				continue
			}
			id, ok := dr.Expr.(*ast.Ident)
			if !ok || id.Name != name {
				continue
			}
			if blk == b {
				continue // defined inside the block we are entering: not yet executed
			}
			if _, has := st.Env[dr.X]; !has {
				if _, isConst := dr.X.(*ssa.Const); !isConst {
					continue
				}
			}
			if depth >= bestDepth {
				best, bestAddr, bestDepth = dr.X, dr.IsAddr, depth
			}
		}
	}
	if best == nil {
		return Value{}, false
	}
	v := x.operand(st, best)
	if bestAddr {
		return x.Load(scratch(st), v, v.T.Underlying().(*types.Pointer).Elem()), true
	}
	return v, true
}

// cutLoopHeader asserts the invariant on entry, havocs what the loop can change and assumes the invariant.
func (x *Exec) cutLoopHeader(fr *frame, l *loopInfo, st *State) {
	lc := fr.contract.Loops[l.ordinal]
	b := l.header
	pos := b.Instrs[0].Pos()
	for _, ins := range b.Instrs {
		if ins.Pos().IsValid() {
			pos = ins.Pos()
			break
		}
	}
	env := &evalEnv{x: x, st: st, old: fr.entry, pkg: fr.contract.Pkg.Types, vars: map[string]Value{}, local: x.localResolver(fr, st, b)}
	for k, v := range x.ghost {
		env.vars[k] = v
	}
	for i, inv := range lc.Invariants {
		x.addObl(st, "inv-entry", fmt.Sprintf("loop%d.%d", l.ordinal, i+1), env.evalBool(inv.Expr), pos, "loop invariant holds on entry: "+inv.Text)
	}
	// loop frame: the arrays (as of loop entry) the loop may write
	var lf *loopFrame
	if lc.HasModifies {
		lf = &loopFrame{ordinal: l.ordinal, fnName: fr.fn.Name(), bases: map[string][]*Term{}, alloc0: st.Alloc, targets: lc.Modifies}
		for _, m := range lc.Modifies {
			v := env.eval(m.Expr)
			sl, ok := v.T.Underlying().(*types.Slice)
			if !ok {
				panic(fmt.Errorf("loop modifies clause %q: need a slice", m.Text))
			}
			k := typeKey(sl.Elem())
			lf.bases[k] = append(lf.bases[k], v.L[0])
		}
		if fr.loopFrames == nil {
			fr.loopFrames = map[*loopInfo]*loopFrame{}
		}
		fr.loopFrames[l] = lf
	}
	pre := &State{PC: st.PC, Heap: st.Heap.clone(), Alloc: st.Alloc, Env: st.Env}
	// havoc: header phis, heap components written in the loop, allocation watermark
	for _, ins := range b.Instrs {
		phi, ok := ins.(*ssa.Phi)
		if !ok {
			break
		}
		old := st.Env[phi]
		nv := x.FreshValue(fr.fn.Name()+"$"+phi.Comment, phi.Type())
		nv.P = old.P
		if old.F != nil {
			nv.F = old.F
		}
		st.Env[phi] = nv
		x.assume(st, x.wf(nv, x.C.Fresh("alloc.any", IntSort)))
	}
	// ghost variables of the verified function: a call inside the loop may set them
	for name, gk := range x.ghostKeys {
		if old, ok := st.Env[gk]; ok && len(old.L) == 1 {
			st.Env[gk] = Value{T: old.T, L: []*Term{x.C.Fresh("loop$ghost$"+name, old.L[0].Sort)}}
		}
	}
	mods, all := x.loopWrites(fr.fn, l)
	if all {
		for k := range st.Heap.comps {
			st.Heap.comps[k] = x.C.Fresh("loop$"+k, compSort(k, x.compSorts[k]))
		}
		x.Notes.Assumed[fmt.Sprintf("loop %d of %s: whole heap havocked (callee without frame)", l.ordinal, QualName(fr.fn))] = true
	} else {
		for k, s := range mods {
			x.compSorts[k] = s
			nc := x.C.Fresh("loop$"+k, compSort(k, s))
			if lf != nil && strings.HasPrefix(k, "S|") {
				// arrays outside the loop's frame keep their contents
				elemKey := k[2:strings.LastIndex(k, "|")]
				oldc := x.comp(pre, k, s)
				bv := x.C.Var("q$b", RefSort)
				x.assume(st, x.C.Forall([]*Term{bv}, x.C.Implies(x.C.Not(lf.allowed(x.C, elemKey, bv)), x.C.Eq(x.C.Select(nc, bv), x.C.Select(oldc, bv))), x.C.Select(nc, bv)))
			}
			st.Heap.comps[k] = nc
		}
	}
	na := x.C.Fresh("alloc", IntSort)
	x.assume(st, x.C.IntCmp(">=", na, st.Alloc))
	st.Alloc = na
	// re-assume well-formedness of havocked phis relative to the new watermark
	for _, ins := range b.Instrs {
		phi, ok := ins.(*ssa.Phi)
		if !ok {
			break
		}
		x.assume(st, x.wf(st.Env[phi], st.Alloc))
	}
	env.local = x.localResolver(fr, st, b)
	if lf != nil {
		// implicit invariant: the named slices still live in an array of the frame
		for _, m := range lc.Modifies {
			v := env.eval(m.Expr)
			x.assume(st, lf.allowed(x.C, typeKey(v.T.Underlying().(*types.Slice).Elem()), v.L[0]))
		}
	}
	for _, inv := range lc.Invariants {
		x.assume(st, env.evalBool(inv.Expr))
	}
	x.addCover(st, fmt.Sprintf("loop%d", l.ordinal), pos, "loop invariant is satisfiable")
	if lc.Decreases != nil {
		m := env.eval(lc.Decreases.Expr)
		if fr.names == nil {
			fr.names = map[string]ssa.Value{}
		}
		x.ghost[fmt.Sprintf("$dec.%s.%d", fr.fn.Name(), l.ordinal)] = m
	}
}

func (x *Exec) checkBackEdge(fr *frame, l *loopInfo, st *State, from *ssa.BasicBlock, ec *Term) {
	lc := fr.contract.Loops[l.ordinal]
	b := l.header
	tmp := &State{PC: ec, Heap: st.Heap.clone(), Alloc: st.Alloc, Env: copyEnv(st.Env)}
	// bind header phis to the values flowing along this edge
	idx := -1
	for k, p := range b.Preds {
		if p == from {
			idx = k
		}
	}
	vals := map[*ssa.Phi]Value{}
	for _, ins := range b.Instrs {
		phi, ok := ins.(*ssa.Phi)
		if !ok {
			break
		}
		v := x.operand(st, phi.Edges[idx])
		v.T = phi.Type()
		vals[phi] = v
	}
	for p, v := range vals {
		tmp.Env[p] = v
	}
	pos := from.Instrs[len(from.Instrs)-1].Pos()
	if !pos.IsValid() {
		pos = b.Instrs[0].Pos()
	}
	env := &evalEnv{x: x, st: tmp, old: fr.entry, pkg: fr.contract.Pkg.Types, vars: map[string]Value{}, local: x.localResolver(fr, tmp, b)}
	for k, v := range x.ghost {
		env.vars[k] = v
	}
	for i, inv := range lc.Invariants {
		x.addOblSplit(tmp, "inv-step", fmt.Sprintf("loop%d.%d", l.ordinal, i+1), env.evalBool(inv.Expr), pos, "loop invariant is preserved: "+inv.Text)
	}
	if lf := fr.loopFrames[l]; lf != nil {
		for _, m := range lc.Modifies {
			v := env.eval(m.Expr)
			x.addObl(tmp, "frame", fmt.Sprintf("loop%d.target", l.ordinal), lf.allowed(x.C, typeKey(v.T.Underlying().(*types.Slice).Elem()), v.L[0]), pos, "loop modifies "+m.Text+": the slice stays in an array of the loop's frame")
		}
	}
	if lc.Decreases != nil {
		before := x.ghost[fmt.Sprintf("$dec.%s.%d", fr.fn.Name(), l.ordinal)]
		after := env.eval(lc.Decreases.Expr)
		c := x.C
		x.addObl(tmp, "decreases", fmt.Sprintf("loop%d", l.ordinal), c.And(c.BVCmp("bvslt", after.L[0], before.L[0]), c.BVCmp("bvsge", before.L[0], c.BVI(0, 64))), pos, "loop measure decreases and is bounded below: "+lc.Decreases.Text)
	}
}

// loopWrites over-approximates the heap components written by a loop.
func (x *Exec) loopWrites(fn *ssa.Function, l *loopInfo) (map[string]*Sort, bool) {
	out := map[string]*Sort{}
	all := false
	seen := map[*ssa.Function]bool{}
	var scanFn func(f *ssa.Function, blocks map[*ssa.BasicBlock]bool)
	addType := func(container types.Type, off int, t types.Type) {
		lay := LayoutOf(t)
		for k, lf := range lay.Leaves {
			out[objComp(container, off+k)] = lf.Sort
			out[sliceComp(container, off+k)] = lf.Sort
		}
	}
	var addrRoot func(v ssa.Value) (types.Type, int, bool)
	addrRoot = func(v ssa.Value) (types.Type, int, bool) {
		switch a := v.(type) {
		case *ssa.FieldAddr:
			sT := a.X.Type().Underlying().(*types.Pointer).Elem()
			off, _ := fieldOffset(sT, a.Field)
			if inner, ok := a.X.(*ssa.FieldAddr); ok {
				r, o, ok2 := addrRoot(inner)
				if ok2 {
					return r, o + off, true
				}
			}
			return sT, off, true
		case *ssa.IndexAddr:
			switch u := a.X.Type().Underlying().(type) {
			case *types.Slice:
				return u.Elem(), 0, true
			case *types.Pointer:
				if at, ok := u.Elem().Underlying().(*types.Array); ok {
					return at.Elem(), 0, true
				}
			}
		}
		if pt, ok := v.Type().Underlying().(*types.Pointer); ok {
			return pt.Elem(), 0, true
		}
		return nil, 0, false
	}
	scanFn = func(f *ssa.Function, blocks map[*ssa.BasicBlock]bool) {
		for _, b := range f.Blocks {
			if blocks != nil && !blocks[b] {
				continue
			}
			for _, ins := range b.Instrs {
				switch i := ins.(type) {
				case *ssa.Store:
					root, off, ok := addrRoot(i.Addr)
					if !ok {
						all = true
						continue
					}
					addType(root, off, i.Val.Type())
				case *ssa.MapUpdate:
					mt := i.Map.Type().Underlying().(*types.Map)
					pn, ps := x.mapPresent(nil, mt)
					out[pn] = ps
					lay := LayoutOf(mt.Elem())
					for k, lf := range lay.Leaves {
						out[x.mapValComp(mt, k)] = ArraySort(x.mapKeySort(mt), lf.Sort)
					}
				case *ssa.MakeInterface:
					if _, isPtr := i.X.Type().Underlying().(*types.Pointer); !isPtr {
						lay := LayoutOf(i.X.Type())
						for k, lf := range lay.Leaves {
							out[x.boxComp(i.X.Type(), k)] = lf.Sort
						}
					}
				case *ssa.Alloc:
					elem := i.Type().(*types.Pointer).Elem()
					if at, ok := elem.Underlying().(*types.Array); ok {
						addType(at.Elem(), 0, at.Elem())
					} else {
						addType(elem, 0, elem)
					}
				case *ssa.MakeSlice:
					el := i.Type().Underlying().(*types.Slice).Elem()
					addType(el, 0, el)
				case *ssa.MakeMap:
					mt := i.Type().Underlying().(*types.Map)
					pn, ps := x.mapPresent(nil, mt)
					out[pn] = ps
				case *ssa.Convert:
					if sl, ok := i.Type().Underlying().(*types.Slice); ok {
						addType(sl.Elem(), 0, sl.Elem())
					}
				case ssa.CallInstruction:
					cc := i.Common()
					if bi, ok := cc.Value.(*ssa.Builtin); ok {
						switch bi.Name() {
						case "append", "copy":
							el := cc.Args[0].Type().Underlying().(*types.Slice).Elem()
							addType(el, 0, el)
						case "delete":
							mt := cc.Args[0].Type().Underlying().(*types.Map)
							pn, ps := x.mapPresent(nil, mt)
							out[pn] = ps
						}
						continue
					}
					callee := cc.StaticCallee()
					if callee == nil {
						if cc.IsInvoke() {
							iq := ifaceMethodName(cc.Value.Type(), cc.Method)
							ct := x.Prog.Contracts[iq]
							if ct == nil {
								if sig, ok := cc.Method.Type().(*types.Signature); ok && sig.Recv() != nil {
									ct = x.Prog.Contracts[ifaceMethodName(sig.Recv().Type(), cc.Method)]
								}
							}
							if ct != nil && (ct.Pure || len(ct.Modifies) == 0) {
								for _, g := range ct.GSets {
									out[ghostComp(g.Field)] = IdxSort
								}
								continue
							}
						}
						all = true
						continue
					}
					q := QualName(callee)
					if strings.HasPrefix(q, verifrtPath+".") || isNoopCallee(q) || q == "fmt.Errorf" || q == "fmt.Sprintf" || q == "errors.New" || strings.HasPrefix(q, "log.") {
						if q == "fmt.Errorf" || q == "errors.New" {
							// allocates only
						}
						continue
					}
					if ct := x.Prog.Contracts[q]; ct != nil && !x.Opt.NoContract[q] {
						for _, g := range ct.GSets {
							out[ghostComp(g.Field)] = IdxSort
						}
						for _, g := range ct.GHavocs {
							out[ghostComp(g.Field)] = IdxSort
						}
						if ct.Pure {
							continue
						}
						if !x.modifiesComps(ct, callee, out) {
							all = true
						}
						continue
					}
					if callee.Blocks != nil && !seen[callee] {
						seen[callee] = true
						scanFn(callee, nil)
						continue
					}
					if callee.Blocks == nil {
						all = true
					}
				}
			}
		}
	}
	scanFn(fn, l.blocks)
	return out, all
}

// modifiesComps adds the components named by a contract's modifies clauses (typed by the callee's parameters).
func (x *Exec) modifiesComps(ct *Contract, callee *ssa.Function, out map[string]*Sort) bool {
	if len(ct.Modifies) == 0 {
		return true // modifies nothing
	}
	for _, m := range ct.Modifies {
		t := x.staticTypeOf(ct, callee, m.Expr)
		if t == nil {
			return false
		}
		switch u := t.Underlying().(type) {
		case *types.Slice:
			lay := LayoutOf(u.Elem())
			for k, lf := range lay.Leaves {
				out[sliceComp(u.Elem(), k)] = lf.Sort
			}
		default:
			lay := LayoutOf(t)
			for k, lf := range lay.Leaves {
				out[objComp(t, k)] = lf.Sort
				out[sliceComp(t, k)] = lf.Sort
			}
		}
	}
	return true
}

// staticTypeOf types simple modifies targets: ident, *ident, ident.field, (*ident).field
func (x *Exec) staticTypeOf(ct *Contract, callee *ssa.Function, e ast.Expr) types.Type {
	switch n := e.(type) {
	case *ast.Ident:
		for _, p := range callee.Params {
			if p.Name() == n.Name {
				return p.Type()
			}
		}
	case *ast.ParenExpr:
		return x.staticTypeOf(ct, callee, n.X)
	case *ast.StarExpr:
		t := x.staticTypeOf(ct, callee, n.X)
		if t == nil {
			return nil
		}
		if pt, ok := t.Underlying().(*types.Pointer); ok {
			return pt.Elem()
		}
	case *ast.SliceExpr:
		return x.staticTypeOf(ct, callee, n.X)
	case *ast.SelectorExpr:
		t := x.staticTypeOf(ct, callee, n.X)
		if t == nil {
			return nil
		}
		if pt, ok := t.Underlying().(*types.Pointer); ok {
			t = pt.Elem()
		}
		if st, ok := t.Underlying().(*types.Struct); ok {
			for i := 0; i < st.NumFields(); i++ {
				if st.Field(i).Name() == n.Sel.Name {
					return st.Field(i).Type()
				}
			}
		}
	}
	return nil
}

// pureResult models the result of a pure function as uninterpreted functions of its argument leaves.
func (x *Exec) pureResult(name string, args []Value, resT types.Type) Value {
	var flat []*Term
	var sorts []*Sort
	for _, a := range args {
		for _, l := range a.L {
			flat = append(flat, l)
			sorts = append(sorts, l.Sort)
		}
	}
	mk := func(t types.Type, tag string) Value {
		lay := LayoutOf(t)
		v := Value{T: t, L: make([]*Term, len(lay.Leaves))}
		for k, lf := range lay.Leaves {
			f := x.C.DeclareFun(fmt.Sprintf("pure$%s%s$%d", name, tag, k), sorts, lf.Sort)
			v.L[k] = x.C.App(f, flat...)
		}
		return v
	}
	if tup, ok := resT.(*types.Tuple); ok {
		out := Value{T: resT}
		for i := 0; i < tup.Len(); i++ {
			out.Tuple = append(out.Tuple, mk(tup.At(i).Type(), fmt.Sprintf("$r%d", i)))
		}
		return out
	}
	return mk(resT, "")
}

func (x *Exec) wfValueOrTuple(v Value, alloc *Term) *Term {
	if len(v.Tuple) > 0 {
		var fs []*Term
		for _, e := range v.Tuple {
			fs = append(fs, x.wf(e, alloc))
		}
		return x.C.And(fs...)
	}
	return x.wf(v, alloc)
}

func allScalar(args []Value) bool {
	for _, a := range args {
		for _, lf := range LayoutOf(a.T).Leaves {
			if lf.Role != "" {
				return false
			}
		}
	}
	return true
}

// copyGhost carries the ghost variables (synthetic Env keys) across a call boundary.
func (x *Exec) copyGhost(from, to map[ssa.Value]Value) {
	for _, k := range x.ghostKeys {
		if v, ok := from[k]; ok {
			to[k] = v
		}
	}
}

// hasRefResult: the result type contains references (pointers, slices, maps, interfaces).
func hasRefResult(t types.Type) bool {
	if t == nil {
		return false
	}
	if tup, ok := t.(*types.Tuple); ok {
		for i := 0; i < tup.Len(); i++ {
			if hasRefResult(tup.At(i).Type()) {
				return true
			}
		}
		return false
	}
	for _, lf := range LayoutOf(t).Leaves {
		if lf.Role != "" {
			return true
		}
	}
	return false
}

// ghostComp names the heap component of an int-valued ghost field (object reference -> value).
func ghostComp(field string) string { return "O|ghostf$" + field }

// objRef is the identity of the object behind a pointer or an interface value.
func (x *Exec) objRef(v Value) *Term {
	switch v.T.Underlying().(type) {
	case *types.Interface:
		if len(v.L) >= 2 {
			return v.L[1]
		}
	}
	return v.L[0]
}
