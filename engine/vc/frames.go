package vc

import (
	"fmt"
	"go/token"
	"go/types"
)

// loopFrame is the write frame of a loop cut by an invariant ("loop N modifies ..."):
// the backing arrays (as of loop entry) it may write, plus anything it allocates.
type loopFrame struct {
	ordinal int
	fnName  string
	bases   map[string][]*Term // element type key -> bases of the named slices on loop entry
	alloc0  *Term              // allocation watermark on loop entry
	targets []*Clause
}

func (f *loopFrame) allowed(c *Ctx, elemKey string, b *Term) *Term {
	fs := []*Term{c.IntCmp(">", b, f.alloc0)}
	for _, e := range f.bases[elemKey] {
		fs = append(fs, c.Eq(b, e))
	}
	return c.Or(fs...)
}

// noteSliceWrite emits the frame obligations for a write into the backing array `base`
// of elements of type elem, for every enclosing loop that declares a frame.
func (x *Exec) noteSliceWrite(st *State, elem types.Type, base *Term, cond *Term, pos token.Pos) {
	if x.specMode > 0 {
		return
	}
	for _, f := range x.frameStack {
		g := f.allowed(x.C, typeKey(elem), base)
		if cond != nil {
			g = x.C.Implies(cond, g)
		}
		x.addObl(st, "frame", fmt.Sprintf("%s.loop%d", f.fnName, f.ordinal), g, pos, fmt.Sprintf("write stays inside the frame of loop %d of %s (loop modifies clause)", f.ordinal, f.fnName))
	}
}

// pureCall models a call of a function with a "pure" contract and no ensures as
// uninterpreted functions of its scalar arguments, and attaches the contract's axioms.
func (x *Exec) pureCall(ct *Contract, args []Value, results *types.Tuple) Value {
	var resT types.Type = results
	if results.Len() == 1 {
		resT = results.At(0).Type()
	}
	return x.pureCallT(ct, args, resT)
}

func (x *Exec) pureCallT(ct *Contract, args []Value, resT types.Type) Value {
	v := x.pureResult(ct.Func, args, resT)
	x.attachAxioms(ct)
	return v
}

func (x *Exec) attachAxioms(ct *Contract) {
	x.attachAxiomsTo(ct, fmt.Sprintf("pure$%s$0", ct.Func))
}

// attachAxiomsTo evaluates the contract's axiom clauses once and attaches them to the
// SMT function symbol sym (they are included in a script whenever sym is used).
func (x *Exec) attachAxiomsTo(ct *Contract, sym string) {
	if len(ct.Axioms) == 0 {
		return
	}
	if x.axiomsDone == nil {
		x.axiomsDone = map[string]bool{}
	}
	if x.axiomsDone[ct.Func] {
		return
	}
	x.axiomsDone[ct.Func] = true
	st := &State{PC: x.C.True(), Heap: &Heap{comps: map[string]*Term{}}, Alloc: x.C.IntLit(0)}
	env := &evalEnv{x: x, st: st, pkg: ct.Pkg.Types, vars: map[string]Value{}}
	for _, a := range ct.Axioms {
		x.C.Axioms[sym] = append(x.C.Axioms[sym], env.evalBool(a.Expr))
		x.Notes.Assumed[fmt.Sprintf("axiom of %s: %s (proved by %s with the functions inlined)", ct.Func, a.Text, a.By)] = true
	}
}

// addOblSplit states goal as several smaller obligations: one per top-level conjunct,
// and, for a range-quantified conjunct forall v in [lo,hi): B(v), the two cases
// v < hi-1 and v = hi-1 (the second is quantifier-free). The conjunction of the
// pieces is equivalent to the goal; the solvers are far more reliable on the pieces.
func (x *Exec) addOblSplit(st *State, kind, sub string, goal *Term, pos token.Pos, text string) {
	c := x.C
	parts := []*Term{goal}
	if goal.Op == "and" {
		parts = goal.Args
	}
	for i, g := range parts {
		name := sub
		if len(parts) > 1 {
			name = fmt.Sprintf("%s.c%d", sub, i+1)
		}
		if g.Op == "forall" && len(g.Vars) == 1 && g.Args[0].Op == "=>" {
			v := g.Vars[0]
			rng, body := g.Args[0].Args[0], g.Args[0].Args[1]
			if rng.Op == "and" && len(rng.Args) == 2 && (rng.Args[1].Op == "bvslt" || rng.Args[1].Op == "<") && rng.Args[1].Args[0] == v && !rng.Args[1].Args[1].Bound && v.Sort == IdxSort {
				lo, hi := rng.Args[0], rng.Args[1].Args[1]
				last := c.BVBin("bvsub", hi, c.BVI(1, 64))
				lt := c.Forall([]*Term{v}, c.Implies(c.And(lo, c.BVCmp("bvslt", v, last)), body), g.Pats...)
				x.addObl(st, kind, name+".lt", lt, pos, text+"  [indices below the last]")
				m := map[*Term]*Term{v: last}
				eq := c.Implies(c.And(c.Subst(lo, m), c.BVCmp("bvslt", last, hi)), c.Subst(body, m))
				x.addObl(st, kind, name+".eq", eq, pos, text+"  [the last index]")
				continue
			}
		}
		x.addObl(st, kind, name, g, pos, text)
	}
}
