package vc

import (
	"bytes"
	"context"
	"fmt"
	"os"
	"os/exec"
	"path/filepath"
	"regexp"
	"strings"
	"sync"
	"time"
)

type Status string

const (
	Proved  Status = "proved"
	Refuted Status = "refuted" // sat with a model (for cover obligations: sat is the good outcome and is reported as Proved)
	Unknown Status = "unknown"
)

type Result struct {
	Obl     *Obligation
	Status  Status
	Solver  string
	Seconds float64
	Bytes   int
	Output  string
	Model   map[string]string
	File    string
	Logic   string
	Pre     *Result // cover obligations after a call: the same query for the state before the call
	CandFile  string // lemma obligations: the same query without quantified facts (a model of it is only a candidate)
	Candidate bool   // Model comes from CandFile: believed only if it replays on the real code
}

type solverCfg struct {
	name string
	argv func(file string, timeoutS int) []string
}

var solvers = []solverCfg{
	{"z3-5.1.0", func(f string, t int) []string { return []string{"z3-new", fmt.Sprintf("-T:%d", t), f} }},
	{"cvc5-1.0", func(f string, t int) []string {
		return []string{"cvc5", "--enum-inst", "--produce-models", fmt.Sprintf("--tlimit=%d", t*1000), f}
	}},
	{"z3-4.8.12", func(f string, t int) []string { return []string{"z3", fmt.Sprintf("-T:%d", t), f} }},
	{"z3-5.1.0-py", func(f string, t int) []string {
		return []string{"python3-vt", z3pyDriver(), f, fmt.Sprint(t * 1000)}
	}},
}

var z3pyOnce sync.Once
var z3pyPath string

func z3pyDriver() string {
	z3pyOnce.Do(func() {
		dir := os.Getenv("B6VC_WORK")
		if dir == "" {
			dir = os.TempDir()
		}
		z3pyPath = filepath.Join(dir, "z3drv.py")
		os.WriteFile(z3pyPath, []byte(`import sys, z3
s = z3.Solver()
s.set("timeout", int(sys.argv[2]))
s.from_file(sys.argv[1])
r = s.check()
print(r)
if r == z3.sat:
    m = s.model()
    print("(model-py")
    for d in m.decls():
        if d.arity() == 0:
            print("(%s %s)" % (d.name(), m[d].sexpr()))
    print(")")
`), 0o644)
	})
	return z3pyPath
}

func termFeatures(ts []*Term, c *Ctx) (quant, uf, arr, ints bool) {
	seen := map[int]bool{}
	var rec func(t *Term)
	rec = func(t *Term) {
		if seen[t.ID] {
			return
		}
		seen[t.ID] = true
		switch t.Op {
		case "forall", "exists":
			quant = true
		case "app":
			uf = true
			if d := c.Funcs[t.Name]; d != nil {
				if d.DefBody != nil {
				if d.Rec {
					quant = true // recursive definitions need the quantifier-capable engines
				}
					rec(d.DefBody)
				}
				for _, ax := range c.Axioms[t.Name] {
					rec(ax)
				}
			}
		}
		switch t.Sort.Kind {
		case SArray:
			arr = true
		case SInt:
			ints = true
		case SUninterp:
			uf = true
		}
		for _, a := range t.Args {
			rec(a)
		}
	}
	for _, t := range ts {
		rec(t)
	}
	return
}

func pickLogic(quant, uf, arr, ints bool) string {
	if quant || ints {
		return "ALL"
	}
	switch {
	case !uf && !arr:
		return "QF_BV"
	case !uf && arr:
		return "QF_ABV"
	default:
		return "QF_AUFBV"
	}
}

var valueRe = regexp.MustCompile(`\(\s*([^\s()|]+|\|[^|]*\|)\s+(#x[0-9a-fA-F]+|#b[01]+|true|false|-?\d+|\(-\s*\d+\)|\(_\s+bv\d+\s+\d+\)|[A-Za-z_@][A-Za-z0-9_!@.$]*|\(as\s+[^()\s]+\s+[^()\s]+\))\s*\)`)

func parseModel(out string) map[string]string {
	m := map[string]string{}
	for _, mt := range valueRe.FindAllStringSubmatch(out, -1) {
		name := strings.Trim(mt[1], "|")
		m[name] = mt[2]
	}
	return m
}

// prepare renders the SMT-LIB script of one obligation (not thread-safe: uses the term context).
func prepare(c *Ctx, o *Obligation, workDir string) *Result {
	var asserts []*Term
	if o.Cover {
		// Satisfiability with quantifiers is not decidable by the solvers; the guard checks the
		// quantifier-free part of the assumptions (and every ground fact), which is where a
		// contradictory requires/Assume would show.
		asserts = []*Term{c.StripQuant(o.Assume), o.Goal}
		c.SkipQuantAxioms = true
		defer func() { c.SkipQuantAxioms = false }()
	} else {
		asserts = []*Term{o.Assume, c.NegSkolem(o.Goal)}
		asserts = append(asserts, frameInstances(c, asserts)...)
	}
	q, uf, arr, ints := termFeatures(asserts, c)
	logic := pickLogic(q, uf, arr, ints)
	var mts []*Term
	for _, nt := range o.ModelTerms {
		mts = append(mts, nt.T)
	}
	script := c.Script(logic, asserts, nil)
	// models are requested through named get-value so names are ours
	var sb strings.Builder
	sb.WriteString("(set-option :produce-models true)\n")
	sb.WriteString(script)
	if len(o.ModelTerms) > 0 && !o.Cover {
		// re-render model terms with a fresh printer sharing nothing: they are constants, so names suffice
		var names []string
		for _, nt := range o.ModelTerms {
			if nt.T.Op == "const" {
				// only request symbols that the script declares
				if strings.Contains(script, "(declare-fun "+smtSym(nt.T.Name)+" ") {
					names = append(names, smtSym(nt.T.Name))
				}
			}
		}
		if len(names) > 0 {
			fmt.Fprintf(&sb, "(get-value (%s))\n", strings.Join(names, " "))
		}
	}
	file := filepath.Join(workDir, sanitize(o.Name)+".smt2")
	os.WriteFile(file, []byte(sb.String()), 0o644)
	res := &Result{Obl: o, File: file, Bytes: sb.Len(), Logic: logic, Status: Unknown}
	if !o.Cover && o.Kind == "lemma" && len(o.ModelTerms) > 0 && q {
		// Quantified facts make the solvers answer "unknown" instead of "sat" when the lemma is
		// false. A second script without them is satisfiable more often than the real one; its
		// model is a candidate input that counts only if it fails on the real code (replay).
		c.SkipQuantAxioms = true
		cas := []*Term{c.StripQuant(o.Assume), c.StripQuant(c.NegSkolem(o.Goal))}
		cscript := c.Script("ALL", cas, nil)
		c.SkipQuantAxioms = false
		var cb strings.Builder
		cb.WriteString("(set-option :produce-models true)\n")
		cb.WriteString(cscript)
		var names []string
		for _, nt := range o.ModelTerms {
			if nt.T.Op == "const" && strings.Contains(cscript, "(declare-fun "+smtSym(nt.T.Name)+" ") {
				names = append(names, smtSym(nt.T.Name))
			}
		}
		if len(names) > 0 {
			fmt.Fprintf(&cb, "(get-value (%s))\n", strings.Join(names, " "))
			res.CandFile = filepath.Join(workDir, sanitize(o.Name)+".cand.smt2")
			os.WriteFile(res.CandFile, []byte(cb.String()), 0o644)
		}
	}
	if o.Cover && o.PreCover != nil {
		po := &Obligation{Name: o.Name + ".before", Kind: "cover", Func: o.Func, Pos: o.Pos, Assume: o.PreCover, Goal: c.True(), Cover: true, Text: o.Text, Unit: o.Unit}
		res.Pre = prepare(c, po, workDir)
	}
	return res
}

// runSolvers discharges a prepared obligation with the solver portfolio.
func runSolvers(res *Result, timeoutS int) *Result {
	runSolvers1(res, timeoutS)
	if res.Status == Unknown && res.CandFile != "" {
		cmd := exec.Command("sh", "-c", "ulimit -t 15; exec z3-new -T:120 \"$1\"", "sh", res.CandFile)
		var buf bytes.Buffer
		cmd.Stdout = &buf
		cmd.Run()
		out := buf.String()
		if strings.HasPrefix(strings.TrimSpace(out), "sat") {
			res.Model = parseModel(out)
			res.Candidate = true
			res.Output += "\ncandidate input from the query without quantified facts (z3 5.1.0): " + firstLine(strings.TrimPrefix(strings.TrimSpace(out), "sat"))
		}
	}
	if res.Obl.Cover && res.Status != Proved && res.Pre != nil {
		// the state after the call is not satisfiable: a dead path if the state before was not either
		runSolvers1(res.Pre, timeoutS)
		if res.Pre.Status == Refuted {
			res.Status = Proved
			res.Solver += " (dead path: the state before the call is unsatisfiable as well)"
		}
	}
	return res
}

func runSolvers1(res *Result, timeoutS int) *Result {
	o, file := res.Obl, res.File
	start := time.Now()

	type ans struct {
		solver string
		out    string
		verdict string
		secs   float64
	}
	run := func(ctx context.Context, s solverCfg, t int) ans {
		t0 := time.Now()
		// The solver's own limit t is wall-clock; under machine load that would turn a proof into a
		// timeout. The binding limit is therefore CPU time (ulimit -t), the solver's wall-clock
		// limit is set 8x higher only as a backstop.
		argv := s.argv(file, t*8+20)
		argv = append([]string{"sh", "-c", fmt.Sprintf("ulimit -t %d; exec \"$@\"", t+1), "sh"}, argv...)
		cmd := exec.CommandContext(ctx, argv[0], argv[1:]...)
		var buf bytes.Buffer
		cmd.Stdout = &buf
		cmd.Stderr = &buf
		cmd.Run()
		out := buf.String()
		first := strings.TrimSpace(strings.SplitN(strings.TrimSpace(out), "\n", 2)[0])
		v := "unknown"
		if first == "sat" || first == "unsat" {
			v = first
		}
		return ans{s.name, out, v, time.Since(t0).Seconds()}
	}
	accept := func(a ans) bool {
		if a.verdict == "unsat" {
			if o.Cover {
				res.Status = Refuted
			} else {
				res.Status = Proved
			}
		} else if a.verdict == "sat" {
			if o.Cover {
				res.Status = Proved
			} else {
				res.Status = Refuted
				res.Model = parseModel(a.out)
			}
		} else {
			return false
		}
		res.Solver, res.Output = a.solver, a.out
		return true
	}
	// stage 1: z3-new alone, short
	t1 := 3
	if timeoutS < t1 {
		t1 = timeoutS
	}
	a := run(context.Background(), solvers[0], t1)
	if accept(a) {
		res.Seconds = time.Since(start).Seconds()
		return res
	}
	res.Output = a.solver + ": " + firstLine(a.out)
	// stage 2: race everything
	ctx, cancel := context.WithCancel(context.Background())
	defer cancel()
	ch := make(chan ans, len(solvers))
	n := 0
	for i, s := range solvers {
		if i == 0 && timeoutS <= t1 {
			continue
		}
		n++
		go func(s solverCfg) { ch <- run(ctx, s, timeoutS) }(s)
	}
	for i := 0; i < n; i++ {
		a := <-ch
		if accept(a) {
			cancel()
			break
		}
		res.Output += "\n" + a.solver + ": " + firstLine(a.out)
	}
	res.Seconds = time.Since(start).Seconds()
	return res
}

func firstLine(s string) string {
	s = strings.TrimSpace(s)
	if i := strings.Index(s, "\n"); i >= 0 {
		s = s[:i]
	}
	if len(s) > 200 {
		s = s[:200]
	}
	return s
}

// SolveAll discharges obligations in parallel.
func SolveAll(c *Ctx, obls []*Obligation, workDir string, timeoutS, par int) []*Result {
	res := make([]*Result, len(obls))
	for i, o := range obls {
		res[i] = prepare(c, o, workDir)
	}
	sem := make(chan struct{}, par)
	var wg sync.WaitGroup
	for i := range obls {
		wg.Add(1)
		sem <- struct{}{}
		go func(i int) {
			defer wg.Done()
			defer func() { <-sem }()
			runSolvers(res[i], timeoutS)
		}(i)
	}
	wg.Wait()
	return res
}
