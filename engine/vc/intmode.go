package vc

import (
	"go/token"
	"go/types"
	"math/big"
)

// Integer mode. By default Go's int is a 64-bit vector like every other
// integer type (exact wrap-around semantics everywhere). In math mode
// (unit option "ints": "math") the type int — lengths, indices, offsets,
// counts — is a mathematical integer: linear arithmetic over positions is
// then decided by the solvers' arithmetic engines instead of 64-bit adder
// circuits, which is what makes the list-codec invariants discharge. The price
// is the stated assumption that int arithmetic does not overflow in the
// verified functions (optionally checked by overflow obligations), and
// int2bv/bv2int bridges at conversions between int and the sized types.

var mathInts bool

// SetIntMode switches the representation of Go's int. It resets the layout cache.
func SetIntMode(math bool) {
	if mathInts == math {
		return
	}
	mathInts = math
	layoutCache = map[string]*Layout{}
	dataSorts = map[string]*Sort{} // tuple sorts of composite map keys have int-typed fields
	arrSorts = map[string]*Sort{}  // array sorts are interned by name and refer to those sorts
	if math {
		IdxSort = IntSort
	} else {
		IdxSort = BV(64)
	}
}

// isMathInt: a value of this Go type is an SMT Int in the current mode.
func isMathInt(t types.Type) bool {
	if !mathInts {
		return false
	}
	b, ok := t.Underlying().(*types.Basic)
	return ok && (b.Kind() == types.Int || b.Kind() == types.UntypedInt)
}

func pow2(n uint) *big.Int { return new(big.Int).Lsh(big.NewInt(1), n) }

func (c *Ctx) bigInt(v *big.Int) *Term {
	return c.intern(&Term{Op: "intlit", Val: new(big.Int).Set(v), Sort: IntSort})
}

// IntToBV converts a mathematical integer to a w-bit vector (two's complement, wrapping).
// Non-literal conversions are uninterpreted functions i2b<w> / b2i<w>{s,u} constrained by
// the round-trip, range and order facts below (all true of the real conversions); the
// solvers' built-in int2bv/bv2nat are decided too poorly to be used inside quantified VCs.
func (c *Ctx) IntToBV(a *Term, w int) *Term {
	if a.IsLit() {
		return c.BVLit(a.Val, w)
	}
	if a.Op == "app" && (a.Name == "b2i"+itoa(w)+"s" || a.Name == "b2i"+itoa(w)+"u") {
		return a.Args[0]
	}
	c.bridgeAxioms(w)
	return c.App(c.Funcs["i2b"+itoa(w)], a)
}

// BVToInt converts a bit-vector to a mathematical integer (signed or unsigned reading).
func (c *Ctx) BVToInt(a *Term, signedSrc bool) *Term {
	if a.IsLit() {
		if signedSrc {
			return c.litToInt(a)
		}
		return c.bigInt(a.Val)
	}
	w := a.Sort.W
	c.bridgeAxioms(w)
	if signedSrc {
		return c.App(c.Funcs["b2i"+itoa(w)+"s"], a)
	}
	return c.App(c.Funcs["b2i"+itoa(w)+"u"], a)
}

func (c *Ctx) bridgeAxioms(w int) {
	ws := itoa(w)
	if _, ok := c.Funcs["i2b"+ws]; ok {
		return
	}
	i2b := c.DeclareFun("i2b"+ws, []*Sort{IntSort}, BV(w))
	b2s := c.DeclareFun("b2i"+ws+"s", []*Sort{BV(w)}, IntSort)
	b2u := c.DeclareFun("b2i"+ws+"u", []*Sort{BV(w)}, IntSort)
	d, b, b2 := c.Var("d", IntSort), c.Var("b", BV(w)), c.Var("b2", BV(w))
	half, full := c.bigInt(pow2(uint(w-1))), c.bigInt(pow2(uint(w)))
	negHalf := c.IntBin("-", c.IntLit(0), half)
	zero := c.IntLit(0)
	c.Axioms["i2b"+ws] = []*Term{
		c.Forall([]*Term{d}, c.Implies(c.And(c.IntCmp(">=", d, negHalf), c.IntCmp("<", d, half)), c.Eq(c.App(b2s, c.App(i2b, d)), d)), c.App(i2b, d)),
		c.Forall([]*Term{d}, c.Implies(c.And(c.IntCmp(">=", d, zero), c.IntCmp("<", d, full)), c.Eq(c.App(b2u, c.App(i2b, d)), d)), c.App(i2b, d)),
	}
	c.Axioms["b2i"+ws+"s"] = []*Term{
		c.Forall([]*Term{b}, c.And(c.Eq(c.App(i2b, c.App(b2s, b)), b), c.IntCmp(">=", c.App(b2s, b), negHalf), c.IntCmp("<", c.App(b2s, b), half)), c.App(b2s, b)),
		c.intern(&Term{Op: "forall", Args: []*Term{c.Eq(c.IntCmp("<", c.App(b2s, b), c.App(b2s, b2)), c.BVCmp("bvslt", b, b2))}, Vars: []*Term{b, b2}, Pats: []*Term{c.App(b2s, b), c.App(b2s, b2)}, Sort: BoolSort, Name: "multi"}),
	}
	c.Axioms["b2i"+ws+"u"] = []*Term{
		c.Forall([]*Term{b}, c.And(c.Eq(c.App(i2b, c.App(b2u, b)), b), c.IntCmp(">=", c.App(b2u, b), zero), c.IntCmp("<", c.App(b2u, b), full)), c.App(b2u, b)),
		c.intern(&Term{Op: "forall", Args: []*Term{c.Eq(c.IntCmp("<", c.App(b2u, b), c.App(b2u, b2)), c.BVCmp("bvult", b, b2))}, Vars: []*Term{b, b2}, Pats: []*Term{c.App(b2u, b), c.App(b2u, b2)}, Sort: BoolSort, Name: "multi"}),
	}
}

func itoa(n int) string {
	return big.NewInt(int64(n)).String()
}

// truncated division and remainder with Go semantics on mathematical integers
func (c *Ctx) IntQuo(a, b *Term) *Term {
	abs := func(t *Term) *Term { return c.Ite(c.IntCmp("<", t, c.IntLit(0)), c.IntBin("-", c.IntLit(0), t), t) }
	q := c.mk("div", IntSort, abs(a), abs(b))
	neg := c.Not(c.Eq(c.IntCmp("<", a, c.IntLit(0)), c.IntCmp("<", b, c.IntLit(0))))
	return c.Ite(neg, c.IntBin("-", c.IntLit(0), q), q)
}

func (c *Ctx) IntRem(a, b *Term) *Term {
	return c.IntBin("-", a, c.IntBin("*", b, c.IntQuo(a, b)))
}

// mathBinop implements Go's integer operators on mathematical ints.
func (x *Exec) mathBinop(st *State, op token.Token, a, b Value, resT types.Type, pos token.Pos) Value {
	c := x.C
	mk := func(t *Term) Value { return Value{T: resT, L: []*Term{t}} }
	l, r := a.L[0], b.L[0]
	toInt := func(v Value) *Term {
		t := v.L[0]
		if t.Sort.Kind == SInt {
			return t
		}
		return c.BVToInt(t, isSigned(v.T))
	}
	switch op {
	case token.SHL, token.SHR:
		// shift of an int by any integer count: through 64-bit vectors
		lv := c.IntToBV(l, 64)
		var cnt *Term
		if r.Sort.Kind == SInt {
			x.boundsObl(st, "shift", c.IntCmp(">=", r, c.IntLit(0)), pos, "shift count is not negative")
			cnt = c.Ite(c.IntCmp(">=", r, c.IntLit(64)), c.BVI(64, 64), c.IntToBV(r, 64))
		} else {
			cnt = r
			if isSigned(b.T) {
				x.boundsObl(st, "shift", c.BVCmp("bvsge", cnt, c.BVI(0, cnt.Sort.W)), pos, "shift count is not negative")
			}
			if cnt.Sort.W < 64 {
				cnt = c.ZExt(cnt, 64)
			}
		}
		if op == token.SHL {
			return mk(c.BVToInt(c.BVBin("bvshl", lv, cnt), true))
		}
		return mk(c.BVToInt(c.BVBin("bvashr", lv, cnt), true))
	}
	l, r = toInt(a), toInt(b)
	over := func(t *Term) {
		if x.Opt.Overflow && x.specMode == 0 && pos.IsValid() {
			lim := c.bigInt(pow2(63))
			x.addObl(st, "overflow", "", c.And(c.IntCmp(">=", t, c.IntBin("-", c.IntLit(0), lim)), c.IntCmp("<", t, lim)), pos, "int arithmetic stays within 64 bits")
		}
	}
	switch op {
	case token.ADD:
		t := c.IntBin("+", l, r)
		over(t)
		return mk(t)
	case token.SUB:
		t := c.IntBin("-", l, r)
		over(t)
		return mk(t)
	case token.MUL:
		t := c.IntBin("*", l, r)
		over(t)
		return mk(t)
	case token.QUO:
		x.boundsObl(st, "div", c.Distinct(r, c.IntLit(0)), pos, "divisor is not zero")
		return mk(c.IntQuo(l, r))
	case token.REM:
		x.boundsObl(st, "div", c.Distinct(r, c.IntLit(0)), pos, "divisor is not zero")
		return mk(c.IntRem(l, r))
	case token.AND, token.OR, token.XOR, token.AND_NOT:
		lv, rv := c.IntToBV(l, 64), c.IntToBV(r, 64)
		var t *Term
		switch op {
		case token.AND:
			t = c.BVBin("bvand", lv, rv)
		case token.OR:
			t = c.BVBin("bvor", lv, rv)
		case token.XOR:
			t = c.BVBin("bvxor", lv, rv)
		default:
			t = c.BVBin("bvand", lv, c.BVNot(rv))
		}
		return mk(c.BVToInt(t, true))
	case token.LSS:
		return mk(c.IntCmp("<", l, r))
	case token.LEQ:
		return mk(c.IntCmp("<=", l, r))
	case token.GTR:
		return mk(c.IntCmp(">", l, r))
	case token.GEQ:
		return mk(c.IntCmp(">=", l, r))
	}
	panic(unsupported("integer operator on int"))
}

// mathConvert handles conversions that involve a mathematical int.
func (x *Exec) mathConvert(v Value, to types.Type) (Value, bool) {
	c := x.C
	from := v.T
	switch {
	case isMathInt(from) && isMathInt(to):
		return Value{T: to, L: v.L}, true
	case isMathInt(from) && isInteger(to):
		w := intWidth(to.Underlying().(*types.Basic))
		return Value{T: to, L: []*Term{c.IntToBV(v.L[0], w)}}, true
	case isInteger(from) && isMathInt(to) && v.L[0].Sort.Kind == SBV:
		// uint64 -> int reinterprets the bits (values >= 2^63 become negative)
		sg := isSigned(from) || v.L[0].Sort.W == 64
		return Value{T: to, L: []*Term{c.BVToInt(v.L[0], sg)}}, true
	case isMathInt(from) && isFloat(to):
		return Value{T: to, L: []*Term{c.App(c.DeclareFun("f64.from.int", []*Sort{IntSort}, F64Sort), v.L[0])}}, true
	case isFloat(from) && isMathInt(to):
		return Value{T: to, L: []*Term{c.App(c.DeclareFun("f64.to.int", []*Sort{F64Sort}, IntSort), v.L[0])}}, true
	}
	return Value{}, false
}

// litTo adapts an (untyped constant) 64-bit literal or term to the target sort.
func (c *Ctx) litTo(t *Term, s *Sort) *Term {
	if t.Sort == s {
		return t
	}
	if s.Kind == SInt {
		if t.Sort.Kind == SBV {
			return c.BVToInt(t, true)
		}
		return t
	}
	if s.Kind == SBV && t.Sort.Kind == SInt {
		return c.IntToBV(t, s.W)
	}
	return c.Resize(t, s.W, true)
}
