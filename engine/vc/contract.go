package vc

import (
	"fmt"
	"go/ast"
	"go/constant"
	"go/parser"
	"go/token"
	"go/types"
	"math/big"
	"strconv"
	"strings"

	"golang.org/x/tools/go/packages"
	"golang.org/x/tools/go/ssa"
)

type Clause struct {
	Text string
	Expr ast.Expr
	Pos  string
	By   string // axioms: the lemma that proves it
}

type LoopContract struct {
	Invariants []*Clause
	Decreases  *Clause
	Unroll     int
	// Modifies: slices whose backing arrays (as they are on loop entry) the loop may write,
	// besides arrays it allocates itself. HasModifies distinguishes "modifies nothing".
	Modifies    []*Clause
	HasModifies bool
}

// GSet is a ghost-field update of a (trusted) method contract: after the call the
// ghost field Field of the object denoted by Obj holds Val (evaluated in the post-state,
// old(...) available).
type GSet struct {
	Field string
	Obj   *Clause
	Val   *Clause
}

type GhostParam struct {
	Name string
	Type ast.Expr
}

type Contract struct {
	Func     string
	Pkg      *packages.Package
	Requires []*Clause
	Ensures  []*Clause
	Modifies []*Clause
	Ghost    []GhostParam
	Loops    map[int]*LoopContract
	Trusted  bool // assumed: body not verified here
	Pure     bool // no side effects on the modelled heap
	Lemmas   []string
	Pos      string
	Decreases *Clause
	Opaque   bool   // spec function used as an uninterpreted function unless the unit reveals it
	OpaqueAt bool   // (b []byte, p int, ...) -> UF(bytes of b, off(b)+p, ...)
	Extent   string // opaque-at function giving the number of bytes the value depends on (frame axiom)
	Axioms   []*Clause
	Falsify  []*Clause
	Function bool
	Havoc    bool
	GhostVars []*Clause // By = name
	Sets      []*Clause // By = name
	GSets     []*GSet   // ghost field updates: gset <field> <object> = <value>
	GHavocs   []*GSet   // ghost fields a verified function may change: ghavoc <field> <object>
	DynSets   []*Clause // "dyncall sets x = e": effect on ghost variables of a call through an unknown function value inside the verified function
}

// parseContracts reads //@ blocks from the zz_verif_contracts*.go files of a package.
func (p *Program) parseContracts(pk *packages.Package) error {
	for _, f := range pk.Syntax {
		fname := p.Fset.Position(f.Pos()).Filename
		if !strings.Contains(fname, "zz_verif_") {
			continue
		}
		var cur *Contract
		var pending string
		var pendingPos token.Pos
		flush := func() error {
			if pending == "" {
				return nil
			}
			line := strings.TrimSpace(pending)
			pos := p.Pos(pendingPos)
			pending = ""
			return p.contractLine(pk, &cur, line, pos)
		}
		for _, cg := range f.Comments {
			for _, c := range cg.List {
				if !strings.HasPrefix(c.Text, "//@") {
					continue
				}
				txt := strings.TrimSpace(strings.TrimPrefix(c.Text, "//@"))
				if txt == "" {
					continue
				}
				if strings.HasPrefix(txt, "|") { // continuation line
					pending += " " + strings.TrimSpace(txt[1:])
					continue
				}
				if err := flush(); err != nil {
					return err
				}
				pending = txt
				pendingPos = c.Pos()
			}
		}
		if err := flush(); err != nil {
			return err
		}
	}
	return nil
}

func (p *Program) contractLine(pk *packages.Package, cur **Contract, line, pos string) error {
	word, rest := splitWord(line)
	mkClause := func(s string) (*Clause, error) {
		// strip trailing comment
		if i := strings.Index(s, " // "); i >= 0 {
			s = s[:i]
		}
		e, err := parser.ParseExpr(s)
		if err != nil {
			return nil, fmt.Errorf("%s: cannot parse contract expression %q: %v", pos, s, err)
		}
		return &Clause{Text: s, Expr: e, Pos: pos}, nil
	}
	if word == "func" {
		name := pk.PkgPath + "." + strings.TrimSpace(rest)
		if _, dup := p.Contracts[name]; dup {
			return fmt.Errorf("%s: duplicate contract for %s", pos, name)
		}
		c := &Contract{Func: name, Pkg: pk, Loops: map[int]*LoopContract{}, Pos: pos}
		p.Contracts[name] = c
		*cur = c
		return nil
	}
	if word == "extern" { // contract for a function of another package: //@ extern encoding/binary.PutUvarint
		name := strings.TrimSpace(rest)
		c := &Contract{Func: name, Pkg: pk, Loops: map[int]*LoopContract{}, Pos: pos, Trusted: true}
		p.Contracts[name] = c
		*cur = c
		return nil
	}
	c := *cur
	if c == nil {
		return fmt.Errorf("%s: contract clause outside a func block: %s", pos, line)
	}
	switch word {
	case "requires":
		cl, err := mkClause(rest)
		if err != nil {
			return err
		}
		c.Requires = append(c.Requires, cl)
	case "ensures":
		cl, err := mkClause(rest)
		if err != nil {
			return err
		}
		c.Ensures = append(c.Ensures, cl)
	case "modifies":
		for _, part := range splitTop(rest) {
			cl, err := mkClause(part)
			if err != nil {
				return err
			}
			c.Modifies = append(c.Modifies, cl)
		}
	case "decreases":
		cl, err := mkClause(rest)
		if err != nil {
			return err
		}
		c.Decreases = cl
	case "ghost":
		n, t := splitWord(rest)
		te, err := parser.ParseExpr(t)
		if err != nil {
			return fmt.Errorf("%s: bad ghost type %q", pos, t)
		}
		c.Ghost = append(c.Ghost, GhostParam{Name: n, Type: te})
	case "ghostvar":
		// ghostvar <name> = <expr>: path-sensitive ghost state of the function under verification
		n, r := splitWord(rest)
		r = strings.TrimSpace(strings.TrimPrefix(strings.TrimSpace(r), "="))
		cl, err := mkClause(r)
		if err != nil {
			return err
		}
		cl.By = n
		c.GhostVars = append(c.GhostVars, cl)
	case "sets":
		// sets <name> = <expr>: applying this contract records expr (over its arguments/results) in the caller's ghost state
		n, r := splitWord(rest)
		r = strings.TrimSpace(strings.TrimPrefix(strings.TrimSpace(r), "="))
		cl, err := mkClause(r)
		if err != nil {
			return err
		}
		cl.By = n
		c.Sets = append(c.Sets, cl)
	case "gset":
		// gset <field> <object expr> = <value expr>
		fld, r2 := splitWord(rest)
		i := strings.Index(r2, " = ")
		if i < 0 {
			return fmt.Errorf("%s: gset needs '<field> <object> = <value>'", pos)
		}
		oc, err := mkClause(strings.TrimSpace(r2[:i]))
		if err != nil {
			return err
		}
		vc, err := mkClause(strings.TrimSpace(r2[i+3:]))
		if err != nil {
			return err
		}
		c.GSets = append(c.GSets, &GSet{Field: fld, Obj: oc, Val: vc})
	case "dyncall":
		// dyncall sets <ghostvar> = <expr>
		kw, r2 := splitWord(rest)
		if kw != "sets" {
			return fmt.Errorf("%s: dyncall supports only 'sets'", pos)
		}
		i := strings.Index(r2, "=")
		if i < 0 {
			return fmt.Errorf("%s: dyncall sets needs '<name> = <expr>'", pos)
		}
		cl, err := mkClause(strings.TrimSpace(r2[i+1:]))
		if err != nil {
			return err
		}
		cl.By = strings.TrimSpace(r2[:i])
		c.DynSets = append(c.DynSets, cl)
	case "ghavoc":
		fld, r2 := splitWord(rest)
		oc, err := mkClause(strings.TrimSpace(r2))
		if err != nil {
			return err
		}
		c.GHavocs = append(c.GHavocs, &GSet{Field: fld, Obj: oc})
	case "falsify":
		// falsify <expr>: quantifier-free stand-in for the requires clauses when the unit is
		// re-run as a falsifier (contracts ignored, loops unrolled); must imply them.
		cl, err := mkClause(rest)
		if err != nil {
			return err
		}
		c.Falsify = append(c.Falsify, cl)
	case "trusted":
		c.Trusted = true
	case "proved":
		c.Trusted = false
	case "axiom":
		// axiom <expr>  [by <lemma>]: a fact about pure (uninterpreted) functions, proved by the named lemma
		by := ""
		if i := strings.LastIndex(rest, " by "); i >= 0 {
			by = strings.TrimSpace(rest[i+4:])
			rest = rest[:i]
		}
		cl, err := mkClause(rest)
		if err != nil {
			return err
		}
		cl.By = by
		c.Axioms = append(c.Axioms, cl)
	case "havoc":
		// the call is modelled as arbitrary: every heap component and the result are havocked
		// (sound for any callee; used to keep unrelated code out of a proof)
		c.Havoc = true
	case "function":
		// the result is a deterministic function of the argument values alone (references
		// included), independent of the heap; no side effects. A stated assumption.
		c.Function = true
		c.Pure = true
	case "pure":
		c.Pure = true
	case "opaque":
		c.Opaque = true
		if strings.TrimSpace(rest) == "at" {
			c.OpaqueAt = true
		}
	case "extent":
		c.Extent = strings.TrimSpace(rest)
	case "uses":
		c.Lemmas = append(c.Lemmas, strings.Fields(rest)...)
	case "loop":
		ns, r2 := splitWord(rest)
		n, err := strconv.Atoi(ns)
		if err != nil {
			return fmt.Errorf("%s: bad loop ordinal %q", pos, ns)
		}
		lc := c.Loops[n]
		if lc == nil {
			lc = &LoopContract{}
			c.Loops[n] = lc
		}
		kw, r3 := splitWord(r2)
		switch kw {
		case "invariant":
			cl, err := mkClause(r3)
			if err != nil {
				return err
			}
			lc.Invariants = append(lc.Invariants, cl)
		case "decreases":
			cl, err := mkClause(r3)
			if err != nil {
				return err
			}
			lc.Decreases = cl
		case "modifies":
			lc.HasModifies = true
			for _, part := range splitTop(r3) {
				if part == "nothing" {
					continue
				}
				cl, err := mkClause(part)
				if err != nil {
					return err
				}
				lc.Modifies = append(lc.Modifies, cl)
			}
		case "unroll":
			k, err := strconv.Atoi(strings.TrimSpace(r3))
			if err != nil {
				return fmt.Errorf("%s: bad unroll bound", pos)
			}
			lc.Unroll = k
		default:
			return fmt.Errorf("%s: unknown loop clause %q", pos, kw)
		}
	default:
		return fmt.Errorf("%s: unknown contract keyword %q", pos, word)
	}
	return nil
}

func splitWord(s string) (string, string) {
	s = strings.TrimSpace(s)
	i := strings.IndexAny(s, " \t")
	if i < 0 {
		return s, ""
	}
	return s[:i], strings.TrimSpace(s[i+1:])
}

// splitTop splits on commas not nested in brackets.
func splitTop(s string) []string {
	var out []string
	depth := 0
	start := 0
	for i, r := range s {
		switch r {
		case '(', '[', '{':
			depth++
		case ')', ']', '}':
			depth--
		case ',':
			if depth == 0 {
				out = append(out, strings.TrimSpace(s[start:i]))
				start = i + 1
			}
		}
	}
	if t := strings.TrimSpace(s[start:]); t != "" {
		out = append(out, t)
	}
	return out
}

// ---------------------------------------------------------------- evaluator

// evalEnv evaluates contract expressions over symbolic values.
type evalEnv struct {
	x     *Exec
	st    *State // state in which heap reads happen
	old   *State // pre-state for old(...)
	pkg   *types.Package
	vars  map[string]Value
	local func(name string) (Value, bool) // SSA locals visible at the evaluation point
}

var untypedInt = types.Typ[types.UntypedInt]

func (e *evalEnv) withState(st *State) *evalEnv {
	n := *e
	n.st = st
	return &n
}

func (e *evalEnv) bind(name string, v Value) *evalEnv {
	n := *e
	n.vars = make(map[string]Value, len(e.vars)+1)
	for k, vv := range e.vars {
		n.vars[k] = vv
	}
	n.vars[name] = v
	return &n
}

func (e *evalEnv) fail(pos ast.Node, msg string, args ...interface{}) {
	panic(fmt.Errorf("contract expression: "+msg, args...))
}

// scratch returns a throw-away copy of the state for side-effect-free evaluation.
func scratch(st *State) *State { return st.snapshot() }

func (e *evalEnv) evalBool(ex ast.Expr) *Term {
	v := e.eval(ex)
	if len(v.L) != 1 || v.L[0].Sort != BoolSort {
		e.fail(ex, "expected a boolean, got %s", v.T)
	}
	return v.L[0]
}

func (e *evalEnv) coerce(a, b Value) (Value, Value) {
	// adapt untyped constants to the other operand's type
	if a.T == untypedInt && b.T != untypedInt && isInteger(b.T) {
		a = Value{T: b.T, L: []*Term{e.x.C.litTo(a.L[0], b.L[0].Sort)}}
	} else if b.T == untypedInt && a.T != untypedInt && isInteger(a.T) {
		b = Value{T: a.T, L: []*Term{e.x.C.litTo(b.L[0], a.L[0].Sort)}}
	} else if a.T == untypedInt && b.T == untypedInt {
		return e.asInt(a), e.asInt(b)
	}
	return a, b
}

func (e *evalEnv) lookupType(ex ast.Expr) types.Type {
	switch t := ex.(type) {
	case *ast.Ident:
		if o := types.Universe.Lookup(t.Name); o != nil {
			if tn, ok := o.(*types.TypeName); ok {
				return tn.Type()
			}
		}
		if o := e.pkg.Scope().Lookup(t.Name); o != nil {
			if tn, ok := o.(*types.TypeName); ok {
				return tn.Type()
			}
		}
	case *ast.SelectorExpr:
		if id, ok := t.X.(*ast.Ident); ok {
			for _, imp := range e.pkg.Imports() {
				if imp.Name() == id.Name {
					if o := imp.Scope().Lookup(t.Sel.Name); o != nil {
						if tn, ok := o.(*types.TypeName); ok {
							return tn.Type()
						}
					}
				}
			}
		}
	case *ast.ArrayType:
		el := e.lookupType(t.Elt)
		if el == nil {
			return nil
		}
		if t.Len == nil {
			return types.NewSlice(el)
		}
		if bl, ok := t.Len.(*ast.BasicLit); ok {
			n, _ := strconv.ParseInt(bl.Value, 0, 64)
			return types.NewArray(el, n)
		}
	case *ast.StarExpr:
		el := e.lookupType(t.X)
		if el != nil {
			return types.NewPointer(el)
		}
	case *ast.ParenExpr:
		return e.lookupType(t.X)
	}
	return nil
}

func (e *evalEnv) eval(ex ast.Expr) Value {
	x, c := e.x, e.x.C
	switch n := ex.(type) {
	case *ast.ParenExpr:
		return e.eval(n.X)
	case *ast.BasicLit:
		switch n.Kind {
		case token.INT:
			v, ok := new(big.Int).SetString(strings.ReplaceAll(n.Value, "_", ""), 0)
			if !ok {
				e.fail(n, "bad integer literal %s", n.Value)
			}
			return Value{T: untypedInt, L: []*Term{c.BVLit(v, 64)}}
		case token.CHAR:
			r, _, _, err := strconv.UnquoteChar(n.Value[1:len(n.Value)-1], '\'')
			if err != nil {
				e.fail(n, "bad char literal")
			}
			return Value{T: untypedInt, L: []*Term{c.BVI(int64(r), 64)}}
		case token.STRING:
			s, err := strconv.Unquote(n.Value)
			if err != nil {
				e.fail(n, "bad string literal")
			}
			return Value{T: types.Typ[types.String], L: []*Term{x.strLit(s)}}
		}
		e.fail(n, "unsupported literal %s", n.Value)
	case *ast.Ident:
		switch n.Name {
		case "true":
			return Value{T: types.Typ[types.Bool], L: []*Term{c.True()}}
		case "false":
			return Value{T: types.Typ[types.Bool], L: []*Term{c.False()}}
		case "nil":
			return Value{T: types.Typ[types.UntypedNil], L: []*Term{c.IntLit(0)}}
		}
		if v, ok := e.vars[n.Name]; ok {
			return v
		}
		if gk, ok := x.ghostKeys[n.Name]; ok {
			if v, ok := e.st.Env[gk]; ok {
				return v
			}
		}
		if e.local != nil {
			if v, ok := e.local(n.Name); ok {
				return v
			}
		}
		if o := e.pkg.Scope().Lookup(n.Name); o != nil {
			if cst, ok := o.(*types.Const); ok {
				return e.constObj(cst)
			}
		}
		e.fail(n, "unknown identifier %q", n.Name)
	case *ast.UnaryExpr:
		v := e.eval(n.X)
		switch n.Op {
		case token.NOT:
			return Value{T: v.T, L: []*Term{c.Not(v.L[0])}}
		case token.SUB:
			if v.L[0].Sort.Kind == SInt {
				return Value{T: v.T, L: []*Term{c.IntBin("-", c.IntLit(0), v.L[0])}}
			}
			return Value{T: v.T, L: []*Term{c.BVNeg(v.L[0])}}
		case token.XOR:
			if v.L[0].Sort.Kind == SInt {
				return Value{T: v.T, L: []*Term{c.IntBin("-", c.IntBin("-", c.IntLit(0), v.L[0]), c.IntLit(1))}}
			}
			return Value{T: v.T, L: []*Term{c.BVNot(v.L[0])}}
		case token.ADD:
			return v
		}
		e.fail(n, "unsupported unary operator %s", n.Op)
	case *ast.StarExpr:
		p := e.eval(n.X)
		pt, ok := p.T.Underlying().(*types.Pointer)
		if !ok {
			e.fail(n, "dereference of non-pointer")
		}
		return x.Load(scratch(e.st), p, pt.Elem())
	case *ast.BinaryExpr:
		switch n.Op {
		case token.LAND:
			return Value{T: types.Typ[types.Bool], L: []*Term{c.And(e.evalBool(n.X), e.evalBool(n.Y))}}
		case token.LOR:
			return Value{T: types.Typ[types.Bool], L: []*Term{c.Or(e.evalBool(n.X), e.evalBool(n.Y))}}
		}
		a, b := e.coerce(e.eval(n.X), e.eval(n.Y))
		resT := a.T
		switch n.Op {
		case token.EQL, token.NEQ, token.LSS, token.LEQ, token.GTR, token.GEQ:
			resT = types.Typ[types.Bool]
		}
		if n.Op == token.EQL || n.Op == token.NEQ {
			a, b = e.coerceNil(a, b)
		}
		return x.binop(scratch(e.st), n.Op, a, b, resT, token.NoPos)
	case *ast.IndexExpr:
		xs := e.eval(n.X)
		idx := e.eval(n.Index)
		if idx.T == untypedInt {
			idx.T = types.Typ[types.Int]
		}
		switch u := xs.T.Underlying().(type) {
		case *types.Slice:
			base, off, _, _ := sliceParts(xs)
			p := Value{T: types.NewPointer(u.Elem()), L: []*Term{base}, P: &PtrInfo{Kind: PElem, Root: u.Elem(), Idx: c.BVBin("bvadd", off, x.toIdx(idx))}}
			return x.Load(scratch(e.st), p, u.Elem())
		case *types.Array:
			sv := x.Opt.NoPanic
			x.Opt.NoPanic = false
			defer func() { x.Opt.NoPanic = sv }()
			return x.indexValue(scratch(e.st), xs, idx, u.Elem(), token.NoPos)
		case *types.Basic:
			if isString(xs.T) {
				return Value{T: types.Typ[types.Uint8], L: []*Term{c.App(x.strAtFn(), xs.L[0], x.toIdx(idx))}}
			}
		case *types.Map:
			return e.mapGet(xs, idx, u)
		}
		e.fail(n, "cannot index %s", xs.T)
	case *ast.SliceExpr:
		xs := e.eval(n.X)
		if _, ok := xs.T.Underlying().(*types.Slice); !ok {
			e.fail(n, "slice expression on %s", xs.T)
		}
		base, off, ln, cp := sliceParts(xs)
		lo, hi := c.BVI(0, 64), ln
		if n.Low != nil {
			lo = x.toIdx(e.asInt(e.eval(n.Low)))
		}
		if n.High != nil {
			hi = x.toIdx(e.asInt(e.eval(n.High)))
		}
		return x.mkSlice(xs.T, base, c.BVBin("bvadd", off, lo), c.BVBin("bvsub", hi, lo), c.BVBin("bvsub", cp, lo))
	case *ast.SelectorExpr:
		// package-qualified constant?
		if id, ok := n.X.(*ast.Ident); ok {
			if _, isVar := e.vars[id.Name]; !isVar {
				for _, imp := range e.pkg.Imports() {
					if imp.Name() == id.Name {
						if o := imp.Scope().Lookup(n.Sel.Name); o != nil {
							if cst, ok := o.(*types.Const); ok {
								return e.constObj(cst)
							}
						}
						e.fail(n, "unsupported package member %s.%s", id.Name, n.Sel.Name)
					}
				}
			}
		}
		v := e.eval(n.X)
		return e.selectField(v, n.Sel.Name, n)
	case *ast.CallExpr:
		return e.evalCall(n)
	}
	e.fail(ex, "unsupported expression form %T", ex)
	return Value{}
}

func (e *evalEnv) asInt(v Value) Value {
	if v.T == untypedInt {
		return Value{T: types.Typ[types.Int], L: []*Term{e.x.C.litTo(v.L[0], IdxSort)}}
	}
	return v
}

func (e *evalEnv) coerceNil(a, b Value) (Value, Value) {
	fix := func(n Value, other Value) Value {
		if n.T != types.Typ[types.UntypedNil] {
			return n
		}
		return e.x.Zero(other.T)
	}
	return fix(a, b), fix(b, a)
}

func (e *evalEnv) constObj(cst *types.Const) Value {
	t := cst.Type()
	val := cst.Val()
	switch {
	case isBool(t):
		return Value{T: t, L: []*Term{e.x.C.Bool(constant.BoolVal(val))}}
	case isString(t):
		return Value{T: t, L: []*Term{e.x.strLit(constant.StringVal(val))}}
	case isInteger(t) || t == untypedInt || t == types.Typ[types.UntypedRune]:
		v, _ := new(big.Int).SetString(constant.ToInt(val).ExactString(), 10)
		if b, ok := t.Underlying().(*types.Basic); ok && b.Info()&types.IsUntyped == 0 {
			return Value{T: t, L: []*Term{e.x.C.BVLit(v, intWidth(b))}}
		}
		return Value{T: untypedInt, L: []*Term{e.x.C.BVLit(v, 64)}}
	}
	panic(fmt.Errorf("contract expression: unsupported constant %s", cst.Name()))
}

func (e *evalEnv) selectField(v Value, name string, at ast.Node) Value {
	x := e.x
	t := v.T
	if pt, ok := t.Underlying().(*types.Pointer); ok {
		// auto-deref
		st, ok := pt.Elem().Underlying().(*types.Struct)
		if !ok {
			e.fail(at, "selector on pointer to non-struct")
		}
		for i := 0; i < st.NumFields(); i++ {
			if st.Field(i).Name() == name {
				pi := x.ptrInfo(v)
				off, _ := fieldOffset(pt.Elem(), i)
				pi.Off += off
				fp := Value{T: types.NewPointer(st.Field(i).Type()), L: v.L, P: &pi}
				lv := x.Load(scratch(e.st), fp, st.Field(i).Type())
				// the loaded value is a well-formed Go value (int range, slice header): keep that fact
				if wf := x.wf(lv, e.st.Alloc); !wf.Bound {
					e.st.PC = x.C.And(e.st.PC, wf)
				}
				return lv
			}
		}
		e.fail(at, "no field %s in %s", name, pt.Elem())
	}
	if st, ok := t.Underlying().(*types.Struct); ok {
		for i := 0; i < st.NumFields(); i++ {
			if st.Field(i).Name() == name {
				off, _ := fieldOffset(t, i)
				return Sub(v, off, st.Field(i).Type())
			}
		}
		// embedded structs
		for i := 0; i < st.NumFields(); i++ {
			if st.Field(i).Embedded() {
				if _, ok := st.Field(i).Type().Underlying().(*types.Struct); ok {
					off, _ := fieldOffset(t, i)
					sub := Sub(v, off, st.Field(i).Type())
					var res Value
					found := func() (ok bool) {
						defer func() {
							if r := recover(); r != nil {
								ok = false
							}
						}()
						res = e.selectField(sub, name, at)
						return true
					}()
					if found {
						return res
					}
				}
			}
		}
	}
	e.fail(at, "no field %s in %s", name, t)
	return Value{}
}

func (e *evalEnv) mapGet(m, k Value, mt *types.Map) Value {
	x, c := e.x, e.x.C
	st := scratch(e.st)
	pn, ps := x.mapPresent(st, mt)
	if len(k.L) == 1 {
		k, _ = e.coerce(k, Value{T: mt.Key(), L: []*Term{x.zeroLeaf(LayoutOf(mt.Key()).Leaves[0].Sort)}})
	}
	present := c.And(c.Distinct(m.L[0], c.IntLit(0)), c.Select(c.Select(x.comp(st, pn, ps), m.L[0]), x.mapKey(mt, k)))
	lay := LayoutOf(mt.Elem())
	ks := x.mapKeySort(mt)
	val := Value{T: mt.Elem(), L: make([]*Term, len(lay.Leaves))}
	for i, lf := range lay.Leaves {
		s := ArraySort(ks, lf.Sort)
		val.L[i] = c.Ite(present, c.Select(c.Select(x.comp(st, x.mapValComp(mt, i), s), m.L[0]), x.mapKey(mt, k)), x.zeroLeaf(lf.Sort))
	}
	e.syncComps(st)
	return val
}

// syncComps copies heap components first touched during a scratch evaluation
// back into the real state, so later reads see the same initial symbols.
func (e *evalEnv) syncComps(st *State) {
	for k, v := range st.Heap.comps {
		if _, ok := e.st.Heap.comps[k]; !ok && strings.HasPrefix(v.Name, "H0$") {
			e.st.Heap.comps[k] = v
		}
	}
}

func (e *evalEnv) evalCall(n *ast.CallExpr) Value {
	x, c := e.x, e.x.C
	boolV := func(t *Term) Value { return Value{T: types.Typ[types.Bool], L: []*Term{t}} }
	if id, ok := n.Fun.(*ast.Ident); ok {
		if _, shadow := e.vars[id.Name]; !shadow {
			switch id.Name {
			case "len", "cap":
				v := e.eval(n.Args[0])
				switch u := v.T.Underlying().(type) {
				case *types.Slice:
					if id.Name == "len" {
						return Value{T: types.Typ[types.Int], L: []*Term{v.L[2]}}
					}
					return Value{T: types.Typ[types.Int], L: []*Term{v.L[3]}}
				case *types.Array:
					return Value{T: types.Typ[types.Int], L: []*Term{c.BVI(u.Len(), 64)}}
				case *types.Basic:
					if isString(v.T) {
						return Value{T: types.Typ[types.Int], L: []*Term{c.App(x.strLenFn(), v.L[0])}}
					}
				}
				e.fail(n, "len of %s", v.T)
			case "old":
				if e.old == nil {
					e.fail(n, "old() has no pre-state here")
				}
				return e.withState(e.old).eval(n.Args[0])
			case "implies":
				return boolV(c.Implies(e.evalBool(n.Args[0]), e.evalBool(n.Args[1])))
			case "iff":
				return boolV(c.Eq(e.evalBool(n.Args[0]), e.evalBool(n.Args[1])))
			case "ite":
				cond := e.evalBool(n.Args[0])
				a, b := e.coerce(e.eval(n.Args[1]), e.eval(n.Args[2]))
				a, b = e.asInt(a), e.asInt(b)
				return x.MergeValues(cond, a, b)
			case "forall", "exists", "forallpair":
				// forall(i, lo, hi, body) over int i in [lo, hi)
				// forall(i T, body) over all values of integer type T
				return boolV(e.quant(id.Name, n))
			case "unchanged":
				return boolV(e.unchanged(n))
			case "haskey":
				// haskey(m, k): k is present in map m
				m := e.eval(n.Args[0])
				mt, ok := m.T.Underlying().(*types.Map)
				if !ok {
					e.fail(n, "haskey: need a map")
				}
				k := e.eval(n.Args[1])
				if len(k.L) == 1 {
					k, _ = e.coerce(k, Value{T: mt.Key(), L: []*Term{x.zeroLeaf(LayoutOf(mt.Key()).Leaves[0].Sort)}})
				}
				pn, ps := x.mapPresent(e.st, mt)
				return boolV(c.And(c.Distinct(m.L[0], c.IntLit(0)), c.Select(c.Select(x.comp(e.st, pn, ps), m.L[0]), x.mapKey(mt, k))))
			case "samemap":
				// samemap(m): the map m denotes has the same entries as in the pre-state
				if e.old == nil {
					e.fail(n, "samemap() has no pre-state here")
				}
				mNew := e.eval(n.Args[0])
				mOld := e.withState(e.old).eval(n.Args[0])
				mt, ok := mNew.T.Underlying().(*types.Map)
				if !ok {
					e.fail(n, "samemap: need a map")
				}
				pn, ps := x.mapPresent(e.st, mt)
				fs := []*Term{c.Eq(mNew.L[0], mOld.L[0]), c.Eq(c.Select(x.comp(e.st, pn, ps), mNew.L[0]), c.Select(x.comp(e.old, pn, ps), mOld.L[0]))}
				ks := x.mapKeySort(mt)
				for i, lf := range LayoutOf(mt.Elem()).Leaves {
					srt := ArraySort(ks, lf.Sort)
					fs = append(fs, c.Eq(c.Select(x.comp(e.st, x.mapValComp(mt, i), srt), mNew.L[0]), c.Select(x.comp(e.old, x.mapValComp(mt, i), srt), mOld.L[0])))
				}
				return boolV(c.And(fs...))
			case "fresh":
				// fresh(x): the reference / slice base of x was allocated after the pre-state
				v := e.eval(n.Args[0])
				if e.old == nil {
					e.fail(n, "fresh() has no pre-state here")
				}
				return boolV(c.IntCmp(">", x.objRef(v), e.old.Alloc))
			case "base":
				v := e.eval(n.Args[0])
				return Value{T: types.Typ[types.UnsafePointer], L: []*Term{v.L[0]}}
			case "off":
				// off(x): the start of slice x within its backing array
				v := e.eval(n.Args[0])
				if len(v.L) < 4 {
					e.fail(n, "off() needs a slice")
				}
				return Value{T: types.Typ[types.Int], L: []*Term{v.L[1]}}
			case "ref":
				// ref(x): the object identity behind a pointer or an interface value, as an int
				v := e.eval(n.Args[0])
				return Value{T: types.Typ[types.Int], L: []*Term{x.objRef(v)}}
			case "ghostf":
				// ghostf("field", obj): int-valued ghost field of the object behind obj
				lit, ok := n.Args[0].(*ast.BasicLit)
				if !ok {
					e.fail(n, "ghostf: first argument must be a string literal")
				}
				fld := strings.Trim(lit.Value, "\"")
				v := e.eval(n.Args[1])
				return Value{T: types.Typ[types.Int], L: []*Term{c.Select(x.comp(e.st, ghostComp(fld), IdxSort), x.objRef(v))}}
			case "isnil":
				v := e.eval(n.Args[0])
				return boolV(c.Eq(v.L[0], c.IntLit(0)))
			case "typeis":
				// typeis(ifaceValue, T): dynamic type test
				v := e.eval(n.Args[0])
				t := e.lookupType(n.Args[1])
				if t == nil {
					e.fail(n, "unknown type in typeis")
				}
				return boolV(c.Eq(v.L[0], x.typeID(t)))
			}
			// conversion to a named or basic type
			if t := e.lookupType(id); t != nil && len(n.Args) == 1 {
				v := e.eval(n.Args[0])
				if v.T == untypedInt {
					v.T = types.Typ[types.Int]
					if isInteger(t) {
						return Value{T: t, L: []*Term{c.litTo(v.L[0], LayoutOf(t).Leaves[0].Sort)}}
					}
				}
				if types.Identical(v.T.Underlying(), t.Underlying()) {
					v.T = t
					return v
				}
				return x.convert(scratch(e.st), v, t, token.NoPos)
			}
			// spec function of the package
			if fn := e.specFunc(id.Name); fn != nil {
				args := make([]Value, len(n.Args))
				for i, a := range n.Args {
					args[i] = e.eval(a)
					pt := fn.Signature.Params().At(i).Type()
					if args[i].T == untypedInt {
						args[i] = Value{T: pt, L: []*Term{c.litTo(args[i].L[0], LayoutOf(pt).Leaves[0].Sort)}}
					}
					args[i].T = pt
				}
				if ct := x.Prog.Contracts[QualName(fn)]; ct != nil && ct.Pure && len(ct.Ensures) == 0 && !x.Opt.NoContract[QualName(fn)] && !x.Opt.InlineAll && allScalar(args) {
					return x.pureCall(ct, args, fn.Signature.Results())
				}
				return x.callSpec(e.st, fn, args)
			}
		}
	}
	// method-style spec call or conversion via selector: pkg.Type(x)
	if t := e.lookupType(n.Fun); t != nil && len(n.Args) == 1 {
		v := e.asInt(e.eval(n.Args[0]))
		if types.Identical(v.T.Underlying(), t.Underlying()) {
			v.T = t
			return v
		}
		return x.convert(scratch(e.st), v, t, token.NoPos)
	}
	if sel, ok := n.Fun.(*ast.SelectorExpr); ok {
		// spec function of an imported package: pkg.Func(args)
		if pid, ok := sel.X.(*ast.Ident); ok {
			if _, shadow := e.vars[pid.Name]; !shadow {
				for _, imp := range e.pkg.Imports() {
					if imp.Name() == pid.Name {
						if sp := x.Prog.SSA.Package(imp); sp != nil {
							if fn := sp.Func(sel.Sel.Name); fn != nil {
								args := make([]Value, len(n.Args))
								for i, a := range n.Args {
									args[i] = e.eval(a)
									pt := fn.Signature.Params().At(i).Type()
									if args[i].T == untypedInt {
										args[i] = Value{T: pt, L: []*Term{c.litTo(args[i].L[0], LayoutOf(pt).Leaves[0].Sort)}}
									}
									args[i].T = pt
								}
								if ct := x.Prog.Contracts[QualName(fn)]; ct != nil && ct.Pure && len(ct.Ensures) == 0 && !x.Opt.NoContract[QualName(fn)] && !x.Opt.InlineAll && allScalar(args) {
									return x.pureCall(ct, args, fn.Signature.Results())
								}
								return x.callSpec(e.st, fn, args)
							}
						}
					}
				}
			}
		}
		// method call on a value: resolve statically through the method set
		recv := e.eval(sel.X)
		if it, ok := recv.T.Underlying().(*types.Interface); ok {
			// interface method with a "function" contract: the same uninterpreted function the
			// executor uses at call sites
			for i := 0; i < it.NumMethods(); i++ {
				m := it.Method(i)
				if m.Name() != sel.Sel.Name {
					continue
				}
				iq := ifaceMethodName(recv.T, m)
				ct := x.Prog.Contracts[iq]
				if ct == nil {
					if sig, ok := m.Type().(*types.Signature); ok && sig.Recv() != nil {
						ct = x.Prog.Contracts[ifaceMethodName(sig.Recv().Type(), m)]
					}
				}
				if ct == nil || !ct.Function {
					e.fail(n, "interface method %s needs a 'function' contract to be used in a contract expression", iq)
				}
				sig := m.Type().(*types.Signature)
				args := []Value{recv}
				for k, a := range n.Args {
					av := e.eval(a)
					pt := sig.Params().At(k).Type()
					if av.T == untypedInt {
						av = Value{T: pt, L: []*Term{c.litTo(av.L[0], LayoutOf(pt).Leaves[0].Sort)}}
					}
					av.T = pt
					args = append(args, av)
				}
				var resT types.Type = sig.Results()
				if sig.Results().Len() == 1 {
					resT = sig.Results().At(0).Type()
				}
				return x.pureCallT(ct, args, resT)
			}
		}
		if fn := e.methodOf(recv.T, sel.Sel.Name); fn != nil {
			args := []Value{recv}
			for i, a := range n.Args {
				av := e.eval(a)
				pt := fn.Signature.Params().At(i).Type()
				if av.T == untypedInt {
					av = Value{T: pt, L: []*Term{c.litTo(av.L[0], LayoutOf(pt).Leaves[0].Sort)}}
				}
				av.T = pt
				args = append(args, av)
			}
			return x.callSpec(e.st, fn, args)
		}
	}
	e.fail(n, "unsupported call in contract expression")
	return Value{}
}

func (e *evalEnv) specFunc(name string) *ssa.Function {
	sp := e.x.Prog.SSA.Package(e.pkg)
	if sp == nil {
		return nil
	}
	return sp.Func(name)
}

func (e *evalEnv) methodOf(t types.Type, name string) *ssa.Function {
	ms := e.x.Prog.SSA.MethodSets.MethodSet(t)
	for i := 0; i < ms.Len(); i++ {
		if ms.At(i).Obj().Name() == name {
			return e.x.Prog.SSA.MethodValue(ms.At(i))
		}
	}
	return nil
}

func (e *evalEnv) quant(kind string, n *ast.CallExpr) *Term {
	c := e.x.C
	if kind == "forallpair" {
		// forallpair(p, q, lo, hi, body, patP, patQ): both variables range over [lo, hi); one
		// multi-pattern {patP, patQ} so the solver instantiates it for every pair of such terms.
		if len(n.Args) != 7 {
			e.fail(n, "forallpair needs (p, q, lo, hi, body, patP, patQ)")
		}
		idp, ok1 := n.Args[0].(*ast.Ident)
		idq, ok2 := n.Args[1].(*ast.Ident)
		if !ok1 || !ok2 {
			e.fail(n, "forallpair: the first two arguments must be identifiers")
		}
		vp, vq := c.Var("q$"+idp.Name, IdxSort), c.Var("q$"+idq.Name, IdxSort)
		lo := e.x.toIdx(e.asInt(e.eval(n.Args[2])))
		hi := e.x.toIdx(e.asInt(e.eval(n.Args[3])))
		inner := e.bind(idp.Name, Value{T: types.Typ[types.Int], L: []*Term{vp}}).bind(idq.Name, Value{T: types.Typ[types.Int], L: []*Term{vq}})
		body := inner.evalBool(n.Args[4])
		rng := c.And(c.BVCmp("bvsle", lo, vp), c.BVCmp("bvslt", vp, hi), c.BVCmp("bvsle", lo, vq), c.BVCmp("bvslt", vq, hi))
		pp, pq := inner.eval(n.Args[5]).L[0], inner.eval(n.Args[6]).L[0]
		return c.intern(&Term{Op: "forall", Args: []*Term{c.Implies(rng, body)}, Vars: []*Term{vp, vq}, Pats: []*Term{pp, pq}, Sort: BoolSort, Name: "multi"})
	}
	if len(n.Args) == 4 || len(n.Args) == 5 {
		id, ok := n.Args[0].(*ast.Ident)
		if !ok {
			e.fail(n, "%s: first argument must be an identifier", kind)
		}
		v := c.Var("q$"+id.Name, IdxSort)
		lo := e.x.toIdx(e.asInt(e.eval(n.Args[1])))
		hi := e.x.toIdx(e.asInt(e.eval(n.Args[2])))
		inner := e.bind(id.Name, Value{T: types.Typ[types.Int], L: []*Term{v}})
		body := inner.evalBool(n.Args[3])
		rng := c.And(c.BVCmp("bvsle", lo, v), c.BVCmp("bvslt", v, hi))
		var pats []*Term
		if len(n.Args) == 5 {
			pv := inner.eval(n.Args[4])
			pats = append(pats, pv.L[0])
		} else {
			pats = autoPatterns(body, v)
		}
		if kind == "forall" {
			return c.Forall([]*Term{v}, c.Implies(rng, body), pats...)
		}
		return c.Exists([]*Term{v}, c.And(rng, body), pats...)
	}
	if len(n.Args) == 3 {
		// forall(x, T, body)
		id, ok := n.Args[0].(*ast.Ident)
		t := e.lookupType(n.Args[1])
		if !ok || t == nil {
			e.fail(n, "%s(x, T, body): bad binder", kind)
		}
		lay := LayoutOf(t)
		val := Value{T: t, L: make([]*Term, len(lay.Leaves))}
		var vars []*Term
		for k, lf := range lay.Leaves {
			val.L[k] = c.Var("q$"+id.Name+lf.Path, lf.Sort)
			vars = append(vars, val.L[k])
		}
		body := e.bind(id.Name, val).evalBool(n.Args[2])
		if kind == "forall" {
			return c.Forall(vars, body)
		}
		return c.Exists(vars, body)
	}
	e.fail(n, "%s needs (i, lo, hi, body) or (x, T, body)", kind)
	return nil
}

// unchanged(s, lo, hi): elements [lo,hi) of slice s are the same as in the pre-state.
// unchanged(s): all elements; unchanged(*p): object leaves.
func (e *evalEnv) unchanged(n *ast.CallExpr) *Term {
	x, c := e.x, e.x.C
	if e.old == nil {
		e.fail(n, "unchanged() has no pre-state here")
	}
	if st, ok := n.Args[0].(*ast.StarExpr); ok && len(n.Args) == 1 {
		p := e.eval(st.X)
		pt := p.T.Underlying().(*types.Pointer)
		a := x.Load(scratch(e.st), p, pt.Elem())
		b := x.Load(scratch(e.old), p, pt.Elem())
		return x.valuesEqual(a, b)
	}
	s := e.eval(n.Args[0])
	sl, ok := s.T.Underlying().(*types.Slice)
	if !ok {
		e.fail(n, "unchanged: need a slice or *pointer")
	}
	base, off, ln, _ := sliceParts(s)
	lo, hi := c.BVI(0, 64), ln
	if len(n.Args) == 3 {
		lo = x.toIdx(e.asInt(e.eval(n.Args[1])))
		hi = x.toIdx(e.asInt(e.eval(n.Args[2])))
	}
	v := c.Var("q$u", IdxSort)
	lay := LayoutOf(sl.Elem())
	var eqs []*Term
	var pats []*Term
	for k, lf := range lay.Leaves {
		now := c.Select(c.Select(x.comp(e.st, sliceComp(sl.Elem(), k), lf.Sort), base), c.BVBin("bvadd", off, v))
		was := c.Select(c.Select(x.comp(e.old, sliceComp(sl.Elem(), k), lf.Sort), base), c.BVBin("bvadd", off, v))
		eqs = append(eqs, c.Eq(now, was))
		pats = append(pats, now)
	}
	return c.Forall([]*Term{v}, c.Implies(c.And(c.BVCmp("bvsle", lo, v), c.BVCmp("bvslt", v, hi)), c.And(eqs...)), pats[0])
}
