package vc

import (
	"fmt"
	"go/ast"
	"go/token"
	"go/types"
	"os"
	"path/filepath"
	"strings"

	"golang.org/x/tools/go/packages"
	"golang.org/x/tools/go/ssa"
	"golang.org/x/tools/go/ssa/ssautil"
)

const ModulePath = "diagonal.works/b6"

// RepoRoot is the root of the checkout under verification.
func RepoRoot() string {
	if r := os.Getenv("VERIF_REPO"); r != "" {
		return r
	}
	return "/repo"
}

func ModuleDir() string { return filepath.Join(RepoRoot(), "src", "diagonal.works", "b6") }

type Program struct {
	Fset  *token.FileSet
	Pkgs  []*packages.Package
	SSA   *ssa.Program
	byPkg map[string]*packages.Package
	// Contracts parsed from //@ blocks, keyed by qualified function name.
	Contracts map[string]*Contract
	LoadSecs  float64
}

// Load type-checks the given package patterns (relative to the b6 module,
// e.g. "./encoding") with build tag verif and builds SSA with function
// bodies for every initial package.
func Load(patterns []string) (*Program, error) {
	cfg := &packages.Config{
		Mode: packages.NeedName | packages.NeedFiles | packages.NeedCompiledGoFiles | packages.NeedImports |
			packages.NeedTypes | packages.NeedTypesSizes | packages.NeedSyntax | packages.NeedTypesInfo | packages.NeedModule,
		Dir:        ModuleDir(),
		BuildFlags: []string{"-tags=verif", "-mod=mod"},
		Env:        append(os.Environ(), "GOFLAGS=-mod=mod", "GOPROXY=off", "GOSUMDB=off", "GOTOOLCHAIN=local", "GOWORK=off"),
	}
	pkgs, err := packages.Load(cfg, patterns...)
	if err != nil {
		return nil, err
	}
	var errs []string
	packages.Visit(pkgs, nil, func(p *packages.Package) {
		for _, e := range p.Errors {
			errs = append(errs, e.Error())
		}
	})
	if len(errs) > 0 {
		return nil, fmt.Errorf("package errors:\n  %s", strings.Join(errs, "\n  "))
	}
	prog, _ := ssautil.Packages(pkgs, ssa.InstantiateGenerics|ssa.GlobalDebug)
	prog.Build()
	p := &Program{Fset: prog.Fset, Pkgs: pkgs, SSA: prog, byPkg: map[string]*packages.Package{}, Contracts: map[string]*Contract{}}
	for _, pk := range pkgs {
		p.byPkg[pk.PkgPath] = pk
	}
	for _, pk := range pkgs {
		if err := p.parseContracts(pk); err != nil {
			return nil, err
		}
	}
	return p, nil
}

func (p *Program) Package(path string) *packages.Package { return p.byPkg[path] }

// FuncByName resolves "pkgpath.Func" or "pkgpath.(*T).Method" / "pkgpath.T.Method".
func (p *Program) FuncByName(q string) *ssa.Function {
	// anonymous function: <parent>$<n>[$<m>...]
	if i := strings.LastIndex(q, "$"); i > 0 {
		if parent := p.FuncByName(q[:i]); parent != nil {
			want := q[strings.LastIndexAny(q[:i], ".)")+1:]
			for _, a := range parent.AnonFuncs {
				if a.Name() == want {
					return a
				}
			}
		}
		return nil
	}
	// split package path from the rest: last '/' then first '.' after it
	slash := strings.LastIndex(q, "/")
	dot := strings.Index(q[slash+1:], ".")
	if dot < 0 {
		return nil
	}
	pkgPath, rest := q[:slash+1+dot], q[slash+1+dot+1:]
	var sp *ssa.Package
	for _, x := range p.SSA.AllPackages() {
		if x.Pkg.Path() == pkgPath {
			sp = x
			break
		}
	}
	if sp == nil {
		return nil
	}
	if !strings.Contains(rest, ".") {
		return sp.Func(rest)
	}
	i := strings.LastIndex(rest, ".")
	recv, meth := rest[:i], rest[i+1:]
	ptr := false
	recv = strings.Trim(recv, "()")
	if strings.HasPrefix(recv, "*") {
		ptr = true
		recv = recv[1:]
	}
	obj := sp.Pkg.Scope().Lookup(recv)
	if obj == nil {
		return nil
	}
	var t types.Type = obj.Type()
	if ptr {
		t = types.NewPointer(t)
	}
	sel := p.SSA.MethodSets.MethodSet(t).Lookup(sp.Pkg, meth)
	if sel == nil {
		return nil
	}
	return p.SSA.MethodValue(sel)
}

// QualName is the inverse of FuncByName for functions with bodies.
func QualName(f *ssa.Function) string {
	if par := f.Parent(); par != nil {
		n := f.Name()
		if i := strings.Index(n, "$"); i >= 0 {
			return QualName(par) + n[len(par.Name()):]
		}
	}
	if f.Pkg == nil {
		if f.Object() != nil && f.Object().Pkg() != nil {
			return f.Object().Pkg().Path() + "." + relName(f)
		}
		return f.String()
	}
	return f.Pkg.Pkg.Path() + "." + relName(f)
}

func relName(f *ssa.Function) string {
	if recv := f.Signature.Recv(); recv != nil {
		t := recv.Type()
		star := ""
		if pt, ok := t.(*types.Pointer); ok {
			star = "*"
			t = pt.Elem()
		}
		name := t.String()
		if n, ok := t.(*types.Named); ok {
			name = n.Obj().Name()
		}
		if star != "" {
			return "(*" + name + ")." + f.Name()
		}
		return name + "." + f.Name()
	}
	return f.Name()
}

// fileOf returns the syntax file containing pos.
func (p *Program) fileOf(pos token.Pos) *ast.File {
	for _, pk := range p.Pkgs {
		for _, f := range pk.Syntax {
			if f.Pos() <= pos && pos <= f.End() {
				return f
			}
		}
	}
	return nil
}

func (p *Program) Pos(pos token.Pos) string {
	if !pos.IsValid() {
		return "-"
	}
	ps := p.Fset.Position(pos)
	rel, err := filepath.Rel(RepoRoot(), ps.Filename)
	if err != nil {
		rel = ps.Filename
	}
	return fmt.Sprintf("%s:%d", rel, ps.Line)
}
