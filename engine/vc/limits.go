package vc

import (
	"fmt"
	"runtime"
	"sync"
	"sync/atomic"
	"time"
)

// Resource guard: symbolic execution of a changed tree can explode (path mode forks at
// every branch). A unit that exceeds the limits is abandoned with an "outside the
// verifier's reach" error, which the runner reports for that unit, instead of the whole
// check being killed by the operating system with nothing reported.

var memExceeded atomic.Bool
var watchdogOnce sync.Once

const memLimitBytes = 6 << 30
const memHardLimitBytes = 10 << 30
const unitTimeLimit = 420 * time.Second

// hardAbort is installed by the property runner: it reports the unit being processed as
// undecidable within the verifier's resources (a VIOLATION line with a replay file) and
// exits with status 1. It is the last resort when the executor does not reach one of
// its cooperative check points while memory keeps growing.
var hardAbort func(reason string)

// unitStarted is when the generation of the current unit began (zero: not generating).
var unitStarted atomic.Int64

const unitHardTimeLimit = 600 * time.Second

func startWatchdog() {
	watchdogOnce.Do(func() {
		go func() {
			var ms runtime.MemStats
			for {
				time.Sleep(500 * time.Millisecond)
				runtime.ReadMemStats(&ms)
				if ms.HeapAlloc > memLimitBytes {
					memExceeded.Store(true)
				}
				if t0 := unitStarted.Load(); t0 != 0 && hardAbort != nil && time.Since(time.Unix(0, t0)) > unitHardTimeLimit {
					hardAbort(fmt.Sprintf("generating the obligations of this unit took more than %d s (state explosion)", int(unitHardTimeLimit.Seconds())))
				}
				if ms.HeapAlloc > memHardLimitBytes && hardAbort != nil {
					hardAbort(fmt.Sprintf("the verifier used more than %d GB while processing this unit (state explosion)", memHardLimitBytes>>30))
				}
			}
		}()
	})
}

// checkLimits is called from the executor's hot paths.
func (x *Exec) checkLimits() {
	if memExceeded.Load() {
		panic(unsupported("memory limit of the verifier exceeded while generating obligations (state explosion)"))
	}
	if !x.deadline.IsZero() && time.Now().After(x.deadline) {
		panic(unsupported("time limit for generating the obligations of one unit exceeded (state explosion)"))
	}
}

// resetLimits is called between units: memory of the abandoned unit is released.
func resetLimits() {
	if memExceeded.Load() {
		runtime.GC()
		memExceeded.Store(false)
	}
}
