package vc

import (
	"fmt"
	"syscall"
	"runtime"
	"sync"
	"sync/atomic"
	"time"
)

// Resource guard: symbolic execution of a changed tree can explode (path mode forks at
// every branch). A unit that exceeds the limits is abandoned with an "outside the
// verifier's reach" error, which the runner reports for that unit, instead of the whole
// check being killed by the operating system with nothing reported.

var memExceeded atomic.Bool
var watchdogOnce sync.Once

const memLimitBytes = 6 << 30
const memHardLimitBytes = 10 << 30
const unitTimeLimit = 1500 * time.Second // wall-clock backstop only; the binding limits are CPU time (below)

// CPU time (this process plus the solver processes it has waited for) is what bounds the
// generation of one unit: it does not depend on how loaded the machine is.
const unitCPULimit = 300 * time.Second
const unitCPUHardLimit = 420 * time.Second

var unitCPUStart atomic.Int64

func cpuNow() time.Duration {
	var a, b syscall.Rusage
	syscall.Getrusage(syscall.RUSAGE_SELF, &a)
	syscall.Getrusage(syscall.RUSAGE_CHILDREN, &b)
	tv := func(t syscall.Timeval) time.Duration {
		return time.Duration(t.Sec)*time.Second + time.Duration(t.Usec)*time.Microsecond
	}
	return tv(a.Utime) + tv(a.Stime) + tv(b.Utime) + tv(b.Stime)
}

// hardAbort is installed by the property runner: it reports the unit being processed as
// undecidable within the verifier's resources (a VIOLATION line with a replay file) and
// exits with status 1. It is the last resort when the executor does not reach one of
// its cooperative check points while memory keeps growing.
var hardAbort func(reason string)

// unitStarted is when the generation of the current unit began (zero: not generating).
var unitStarted atomic.Int64

const unitHardTimeLimit = 1800 * time.Second

func startWatchdog() {
	watchdogOnce.Do(func() {
		go func() {
			var ms runtime.MemStats
			for {
				time.Sleep(500 * time.Millisecond)
				runtime.ReadMemStats(&ms)
				if ms.HeapAlloc > memLimitBytes {
					memExceeded.Store(true)
				}
				if t0 := unitStarted.Load(); t0 != 0 && hardAbort != nil && cpuNow()-time.Duration(unitCPUStart.Load()) > unitCPUHardLimit {
					hardAbort(fmt.Sprintf("generating the obligations of this unit used more than %d s of CPU time (state explosion)", int(unitCPUHardLimit.Seconds())))
				}
				if t0 := unitStarted.Load(); t0 != 0 && hardAbort != nil && time.Since(time.Unix(0, t0)) > unitHardTimeLimit {
					hardAbort(fmt.Sprintf("generating the obligations of this unit took more than %d s (state explosion)", int(unitHardTimeLimit.Seconds())))
				}
				if ms.HeapAlloc > memHardLimitBytes && hardAbort != nil {
					hardAbort(fmt.Sprintf("the verifier used more than %d GB while processing this unit (state explosion)", memHardLimitBytes>>30))
				}
			}
		}()
	})
}

// checkLimits is called from the executor's hot paths.
func (x *Exec) checkLimits() {
	if memExceeded.Load() {
		panic(unsupported("memory limit of the verifier exceeded while generating obligations (state explosion)"))
	}
	if x.cpuBudget > 0 {
		x.limitTick++
		if x.limitTick%64 == 0 && cpuNow()-x.cpuStart > x.cpuBudget {
			panic(unsupported("CPU time limit for generating the obligations of one unit exceeded (state explosion)"))
		}
	}
	if !x.deadline.IsZero() && time.Now().After(x.deadline) {
		panic(unsupported("time limit for generating the obligations of one unit exceeded (state explosion)"))
	}
}

// resetLimits is called between units: memory of the abandoned unit is released.
func resetLimits() {
	if memExceeded.Load() {
		runtime.GC()
		memExceeded.Store(false)
	}
}
