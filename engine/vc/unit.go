package vc

import (
	"os"
	"runtime/debug"
	"fmt"
	"go/ast"
	"go/types"
	"path/filepath"
	"strings"

	"golang.org/x/tools/go/ssa"
)

// initialState builds the symbolic pre-state and arguments for a top-level unit.
func (x *Exec) initialState(fn *ssa.Function) (*State, []Value) {
	c := x.C
	alloc0 := c.Const("alloc0", IntSort)
	st := &State{PC: c.IntCmp(">=", alloc0, c.IntLit(0)), Heap: &Heap{comps: map[string]*Term{}}, Alloc: alloc0, Env: map[ssa.Value]Value{}}
	var args []Value
	x.inputs = nil
	for i, p := range fn.Params {
		v := x.FreshValue("in$"+p.Name(), p.Type())
		x.zeroSliceOffsets(&v)
		x.assume(st, x.wf(v, alloc0))
		x.assume(st, x.nonNegRefs(v))
		if i == 0 && fn.Signature.Recv() != nil {
			if _, ok := p.Type().Underlying().(*types.Pointer); ok {
				x.assume(st, c.IntCmp(">", v.L[0], c.IntLit(0)))
				x.Notes.Assumed["pointer receivers of verified methods are non-nil"] = true
			}
		}
		lay := LayoutOf(p.Type())
		for k, lf := range lay.Leaves {
			x.inputs = append(x.inputs, NamedTerm{Name: p.Name() + lf.Path, T: v.L[k]})
		}
		if sl, ok := p.Type().Underlying().(*types.Slice); ok && x.Opt.ModelElems {
			// falsifier only: look for counterexamples with short slices (they must be rebuilt as Go literals)
			x.assume(st, c.BVCmp("bvsle", v.L[2], c.BVI(64, 64)))
			// name the first elements so that a counterexample can be rebuilt as a Go literal
			if el := LayoutOf(sl.Elem()); len(el.Leaves) == 1 && el.Leaves[0].Role == "" && el.Leaves[0].Sort.Kind != SUninterp {
				arr := c.Select(x.comp(st, sliceComp(sl.Elem(), 0), el.Leaves[0].Sort), v.L[0])
				for e := int64(0); e < 8; e++ {
					ec := c.Fresh(fmt.Sprintf("in$%s$e%d", p.Name(), e), el.Leaves[0].Sort)
					x.assume(st, c.Eq(ec, c.Select(arr, c.BVBin("bvadd", v.L[1], c.BVI(e, 64)))))
					x.inputs = append(x.inputs, NamedTerm{Name: fmt.Sprintf("%s[%d]", p.Name(), e), T: ec})
				}
			}
		}
		args = append(args, v)
	}
	return st, args
}

func (x *Exec) nonNegRefs(v Value) *Term {
	lay := LayoutOf(v.T)
	var fs []*Term
	for k, lf := range lay.Leaves {
		if lf.Role == "ref" { // interface payloads may be boxed values (negative ids)
			fs = append(fs, x.C.IntCmp(">=", v.L[k], x.C.IntLit(0)))
		}
	}
	return x.C.And(fs...)
}

// VerifyLemma executes a verifLemma_* function: its parameters are universally
// quantified, Assume restricts them, every Assert (and every possible panic)
// becomes an obligation.
func (x *Exec) VerifyLemma(fn *ssa.Function) (err error) {
	defer x.recoverUnsupported(fn, &err)
	x.unit = "lemma/" + fn.Name()
	x.unitFunc = QualName(fn)
	x.ghost = map[string]Value{}
	st, args := x.initialState(fn)
	fr := &frame{fn: fn, args: args, entry: st.snapshot()}
	if ct := x.Prog.Contracts[QualName(fn)]; ct != nil {
		fr.contract = ct
		// quantified lemma hypotheses that Go cannot express are given as requires clauses
		env := &evalEnv{x: x, st: st, pkg: ct.Pkg.Types, vars: map[string]Value{}}
		for i, p := range fn.Params {
			env.vars[p.Name()] = args[i]
		}
		reqs := ct.Requires
		if x.Opt.InlineAll && len(ct.Falsify) > 0 {
			reqs = ct.Falsify
		}
		for _, r := range reqs {
			x.assume(st, env.evalBool(r.Expr))
		}
		fr.entry = st.snapshot()
	}
	x.stack = []*ssa.Function{fn}
	before := len(x.Obls)
	if x.Opt.Paths {
		ends := 0
		var endPCs []*Term
		x.ExecPaths(fr, st, func(out *State, _ Value) {
			ends++
			endPCs = append(endPCs, out.PC)
		})
		if ends == 0 {
			if len(x.Obls) > before {
				return nil // every path stops at a failed obligation (e.g. an unwinding assertion): those are reported
			}
			return fmt.Errorf("lemma %s: no path reaches the end of the lemma", fn.Name())
		}
		// vacuity guard: some complete path is feasible
		x.addCover(&State{PC: x.C.Or(endPCs...)}, "end", fn.Pos(), "lemma assumptions are satisfiable and some path completes the lemma body")
		x.Notes.Bounds[fmt.Sprintf("%s: executed path by path (%d complete paths)", fn.Name(), ends)] = true
		return nil
	}
	_, out := x.ExecFunc(fr, st)
	// vacuity guard: the end of the lemma must be reachable under its assumptions
	x.addCover(out, "end", fn.Pos(), "lemma assumptions are satisfiable and the lemma body can complete")
	if len(x.Obls) == before {
		return fmt.Errorf("lemma %s generated no obligations", fn.Name())
	}
	return nil
}

// VerifyFunc checks a function body against its contract (modular: callees by contract).
func (x *Exec) VerifyFunc(fn *ssa.Function, ct *Contract) (err error) {
	defer x.recoverUnsupported(fn, &err)
	x.unit = "func/" + relName(fn)
	x.unitFunc = QualName(fn)
	x.ghost = map[string]Value{}
	x.Notes.UnderContract[QualName(fn)] = true
	x.rootContract = ct
	st, args := x.initialState(fn)
	// a closure as the unit: its captured variables are arbitrary (non-nil) cells
	var bindings []Value
	for _, fv := range fn.FreeVars {
		bv := x.FreshValue("fv$"+fv.Name(), fv.Type())
		x.assume(st, x.wf(bv, st.Alloc))
		if _, isPtr := fv.Type().Underlying().(*types.Pointer); isPtr {
			x.assume(st, x.C.Distinct(bv.L[0], x.C.IntLit(0)))
		}
		bindings = append(bindings, bv)
	}
	env := &evalEnv{x: x, st: st, pkg: ct.Pkg.Types, vars: map[string]Value{}}
	for i, p := range fn.Params {
		env.vars[p.Name()] = args[i]
	}
	for i, fv := range fn.FreeVars {
		if pt, ok := fv.Type().Underlying().(*types.Pointer); ok {
			env.vars[fv.Name()] = x.Load(st, bindings[i], pt.Elem())
		}
	}
	for _, g := range ct.Ghost {
		t := env.lookupType(g.Type)
		if t == nil {
			return fmt.Errorf("contract %s: unknown ghost type for %s", ct.Func, g.Name)
		}
		gv := x.FreshValue("ghost$"+g.Name, t)
		x.zeroSliceOffsets(&gv)
		x.assume(st, x.wf(gv, st.Alloc))
		x.assume(st, x.nonNegRefs(gv))
		x.ghost[g.Name] = gv
		env.vars[g.Name] = gv
		lay := LayoutOf(t)
		for k, lf := range lay.Leaves {
			x.inputs = append(x.inputs, NamedTerm{Name: "ghost." + g.Name + lf.Path, T: gv.L[k]})
		}
	}
	for _, r := range ct.Requires {
		x.assume(st, env.evalBool(r.Expr))
	}
	x.ghostKeys = map[string]*ssa.Parameter{}
	for _, gv := range ct.GhostVars {
		k := &ssa.Parameter{}
		x.ghostKeys[gv.By] = k
		st.Env[k] = env.asInt(env.eval(gv.Expr))
	}
	x.addCover(st, "requires", fn.Pos(), "precondition is satisfiable")
	fr := &frame{fn: fn, args: args, bindings: bindings, entry: st.snapshot(), contract: ct, verify: true}
	x.stack = []*ssa.Function{fn}
	before := len(x.Obls)
	x.ExecFunc(fr, st)
	if len(x.Obls) == before {
		return fmt.Errorf("function %s generated no obligations", fn.Name())
	}
	return nil
}

func (x *Exec) recoverUnsupported(fn *ssa.Function, err *error) {
	if r := recover(); r != nil {
		switch e := r.(type) {
		case Unsupported:
			x.Notes.Rejected[QualName(fn)] = e.Msg
			*err = e
		case error:
			*err = fmt.Errorf("%s: %v", QualName(fn), e)
			if os.Getenv("B6VC_DEBUG") != "" {
				fmt.Fprintf(os.Stderr, "%v\n%s\n", e, debug.Stack())
			}
		default:
			panic(r)
		}
	}
}

// ---------------------------------------------------------------- spec functions

func (x *Exec) isSpecFunc(fn *ssa.Function) bool {
	if fn == nil || !fn.Pos().IsValid() {
		return false
	}
	file := filepath.Base(x.Prog.Fset.Position(fn.Pos()).Filename)
	if !strings.HasPrefix(file, "zz_verif_spec") || strings.HasPrefix(fn.Name(), "verif") {
		return false // verifLemma_* and verifHelper_* are executable code, not specifications
	}
	// helpers that allocate (build values for lemmas) are ordinary code, executed in the caller's state
	for _, b := range fn.Blocks {
		for _, ins := range b.Instrs {
			switch i := ins.(type) {
			case *ssa.MakeSlice, *ssa.MakeMap, *ssa.MakeClosure, *ssa.Store, *ssa.MapUpdate:
				return false
			case *ssa.Alloc:
				if i.Heap {
					return false
				}
			case *ssa.Call:
				if bi, ok := i.Call.Value.(*ssa.Builtin); ok && (bi.Name() == "append" || bi.Name() == "copy") {
					return false
				}
				if callee := i.Call.StaticCallee(); callee != nil && callee.Pkg != nil && callee.Pkg.Pkg.Path() == verifrtPath {
					return false // a function that asserts or assumes is lemma code
				}
			}
		}
	}
	return true
}

func isSelfRecursive(fn *ssa.Function) bool {
	for _, b := range fn.Blocks {
		for _, ins := range b.Instrs {
			if ci, ok := ins.(ssa.CallInstruction); ok {
				if ci.Common().StaticCallee() == fn {
					return true
				}
			}
		}
	}
	return false
}

type specParam struct {
	slice  bool
	elem   types.Type
	nLeaf  int
	t      types.Type
	baseID int64
}

type specDef struct {
	decl   *FuncDecl
	params []specParam
	resT   types.Type
	// recursive definitions: body over recVars, recursion on recVar
	recBody  *Term
	recVars  []*Term
	recVar   *Term
	unfolded map[int]bool
}

var specDefsKey = struct{}{}

func (x *Exec) specDefs() map[*ssa.Function]*specDef {
	if x.specs == nil {
		x.specs = map[*ssa.Function]*specDef{}
	}
	return x.specs
}

// callSpec evaluates a pure specification function on symbolic arguments.
func (x *Exec) callSpec(st *State, fn *ssa.Function, args []Value) Value {
	if fn.Blocks == nil {
		panic(fmt.Errorf("spec function %s has no body", fn.Name()))
	}
	for i, p := range fn.Params {
		args[i].T = p.Type()
	}
	if ct := x.Prog.Contracts[QualName(fn)]; ct != nil && ct.Opaque && !x.Opt.Reveal && !x.Opt.RevealOnly[fn.Name()] {
		return x.applyOpaque(st, fn, ct, args)
	}
	if isSelfRecursive(fn) || x.definable(fn) {
		def := x.specUF(fn)
		return x.applySpecUF(st, def, args)
	}
	x.specMode++
	saveNP := x.Opt.NoPanic
	x.Opt.NoPanic = false
	saveStack := x.stack
	defer func() { x.specMode--; x.Opt.NoPanic = saveNP; x.stack = saveStack }()
	sub := scratch(st)
	sub.Env = map[ssa.Value]Value{}
	x.stack = append(x.stack, fn)
	nfr := &frame{fn: fn, args: args}
	if ct := x.Prog.Contracts[QualName(fn)]; ct != nil {
		nfr.contract = ct
	}
	res, _ := x.ExecFunc(nfr, sub)
	if x.specMode == 1 && len(x.specWF) > 0 {
		fs := []*Term{st.PC}
		for _, f := range x.specWF {
			if !f.Bound { // facts about terms under a quantifier stay inside it (dropped here)
				fs = append(fs, f)
			}
		}
		st.PC = x.C.And(fs...)
		x.specWF = nil
	}
	for k, v := range sub.Heap.comps {
		if _, ok := st.Heap.comps[k]; !ok && strings.HasPrefix(v.Name, "H0$") {
			st.Heap.comps[k] = v
		}
	}
	return res
}

// definable: a (non-recursive) spec function that can become an SMT define-fun:
// one scalar result, parameters that are scalars/structs of scalars or slices.
// Keeping spec functions as named functions (instead of inlining them) keeps
// quantifier bodies and recursive definitions small.
func (x *Exec) definable(fn *ssa.Function) bool {
	if fn.Signature.Results().Len() != 1 || len(fn.FreeVars) > 0 {
		return false
	}
	ok := true
	func() {
		defer func() {
			if recover() != nil {
				ok = false
			}
		}()
		if len(LayoutOf(fn.Signature.Results().At(0).Type()).Leaves) != 1 {
			ok = false
		}
		for _, p := range fn.Params {
			if _, isSlice := p.Type().Underlying().(*types.Slice); isSlice {
				continue
			}
			for _, lf := range LayoutOf(p.Type()).Leaves {
				if lf.Role != "" {
					ok = false
				}
			}
		}
	}()
	return ok
}

func (x *Exec) applySpecUF(st *State, def *specDef, args []Value) Value {
	c := x.C
	var flat []*Term
	for i, sp := range def.params {
		a := args[i]
		if sp.slice {
			base, off, ln, _ := sliceParts(a)
			lay := LayoutOf(sp.elem)
			for k, lf := range lay.Leaves {
				flat = append(flat, c.Select(x.comp(st, sliceComp(sp.elem, k), lf.Sort), base))
			}
			flat = append(flat, off, ln)
		} else {
			flat = append(flat, a.L...)
		}
	}
	app := c.App(def.decl, flat...)
	if def.recBody != nil && !app.Bound {
		x.groundUnfold(def, flat)
	}
	return Value{T: def.resT, L: []*Term{app}}
}

// groundUnfold adds the defining equation of a recursive spec function at the
// ground index terms X+c (c = 1..4) and 0 that the engine itself builds, so the
// proof does not depend on the solver matching the successor trigger modulo arithmetic.
func (x *Exec) groundUnfold(def *specDef, flat []*Term) {
	c := x.C
	ji := -1
	for i, v := range def.recVars {
		if v == def.recVar {
			ji = i
		}
	}
	if ji < 0 {
		return
	}
	j := flat[ji]
	base, off := j, int64(0)
	if j.Op == "+" && j.Args[1].IsLit() {
		if j.Args[1].Val.IsInt64() {
			base, off = j.Args[0], j.Args[1].Val.Int64()
		}
	} else if j.Op == "bvadd" && j.Args[1].IsLit() {
		o := signed(j.Args[1].Val, 64)
		if o.IsInt64() {
			base, off = j.Args[0], o.Int64()
		}
	} else if j.IsLit() {
		return // literal index: the zero axiom and successor axiom suffice
	}
	if off < 1 || off > 4 {
		return
	}
	for s := off; s >= 1; s-- {
		idx := c.BVBin("bvadd", base, c.BVI(s, 64))
		args := append([]*Term{}, flat...)
		args[ji] = idx
		inst := c.App(def.decl, args...)
		if def.unfolded[inst.ID] {
			continue
		}
		def.unfolded[inst.ID] = true
		m := map[*Term]*Term{}
		for i, v := range def.recVars {
			m[v] = args[i]
		}
		c.Axioms[def.decl.Name] = append(c.Axioms[def.decl.Name], c.Eq(inst, c.Subst(def.recBody, m)))
	}
}

// specUF turns a self-recursive spec function into an SMT define-fun-rec.
func (x *Exec) specUF(fn *ssa.Function) *specDef {
	defs := x.specDefs()
	if d, ok := defs[fn]; ok {
		return d
	}
	c := x.C
	name := "spec$" + fn.Name()
	if recv := fn.Signature.Recv(); recv != nil {
		// methods of different types may share a name (FeatureID.IsValid, AreaID.IsValid)
		rt := recv.Type()
		if pt, ok := rt.(*types.Pointer); ok {
			rt = pt.Elem()
		}
		if nt, ok := rt.(*types.Named); ok {
			name = "spec$" + nt.Obj().Name() + "." + fn.Name()
		}
	}
	resT := fn.Signature.Results().At(0).Type()
	rl := LayoutOf(resT)
	if fn.Signature.Results().Len() != 1 || len(rl.Leaves) != 1 {
		panic(fmt.Errorf("recursive spec function %s must return one scalar", fn.Name()))
	}
	d := &specDef{resT: resT}
	var sorts []*Sort
	var vars []*Term
	args := make([]Value, len(fn.Params))
	st := &State{PC: c.True(), Heap: &Heap{comps: map[string]*Term{}}, Alloc: c.IntLit(0), Env: map[ssa.Value]Value{}}
	for i, p := range fn.Params {
		t := p.Type()
		if sl, ok := t.Underlying().(*types.Slice); ok {
			lay := LayoutOf(sl.Elem())
			sp := specParam{slice: true, elem: sl.Elem(), nLeaf: len(lay.Leaves), t: t, baseID: int64(-1000 - i)}
			base := c.IntLit(sp.baseID)
			for k, lf := range lay.Leaves {
				as := ArraySort(IdxSort, lf.Sort)
				v := c.Var(fmt.Sprintf("%s$a%d", p.Name(), k), as)
				vars = append(vars, v)
				sorts = append(sorts, as)
				cn := sliceComp(sl.Elem(), k)
				h := x.comp(st, cn, lf.Sort)
				x.setComp(st, cn, lf.Sort, c.Store(h, base, v))
			}
			off := c.Var(p.Name()+"$off", IdxSort)
			ln := c.Var(p.Name()+"$len", IdxSort)
			vars = append(vars, off, ln)
			sorts = append(sorts, IdxSort, IdxSort)
			args[i] = x.mkSlice(t, base, off, ln, ln)
			d.params = append(d.params, sp)
			continue
		}
		lay := LayoutOf(t)
		v := Value{T: t, L: make([]*Term, len(lay.Leaves))}
		for k, lf := range lay.Leaves {
			if lf.Role == "base" || lf.Role == "ref" || lf.Role == "pay" {
				panic(fmt.Errorf("recursive spec function %s: parameter %s has reference type inside a composite", fn.Name(), p.Name()))
			}
			v.L[k] = c.Var(p.Name()+lf.Path, lf.Sort)
			vars = append(vars, v.L[k])
			sorts = append(sorts, lf.Sort)
		}
		args[i] = v
		d.params = append(d.params, specParam{t: t, nLeaf: len(lay.Leaves)})
	}
	d.decl = c.DeclareFun(name, sorts, rl.Leaves[0].Sort)
	d.decl.Rec = isSelfRecursive(fn)
	defs[fn] = d
	x.specMode++
	saveNP := x.Opt.NoPanic
	x.Opt.NoPanic = false
	saveStack := x.stack
	x.stack = append(x.stack, fn)
	x.defining = append(x.defining, fn)
	nfr := &frame{fn: fn, args: args}
	if ct := x.Prog.Contracts[QualName(fn)]; ct != nil {
		nfr.contract = ct
	}
	res, _ := x.ExecFunc(nfr, st)
	x.defining = x.defining[:len(x.defining)-1]
	x.stack = saveStack
	x.Opt.NoPanic = saveNP
	x.specMode--
	if !d.decl.Rec {
		d.decl.DefVars = vars
		d.decl.DefBody = res.L[0]
		return d
	}
	// Recursive spec function f(args, j) with recursion on the int parameter named by
	// "decreases": kept uninterpreted, with its defining equation available at j = 0 and at
	// successor terms j+1 only (trigger f(args, j+1)). Unfolding on every f-term makes the
	// solvers loop (each unfolding creates a new f-term that matches quantifier triggers).
	d.decl.Rec = false
	body := res.L[0]
	var jv *Term
	if ct := x.Prog.Contracts[QualName(fn)]; ct != nil && ct.Decreases != nil {
		if id, ok := ct.Decreases.Expr.(*ast.Ident); ok {
			for _, v := range vars {
				if v.Name == sanitize(id.Name) {
					jv = v
				}
			}
		}
	}
	if jv == nil {
		panic(fmt.Errorf("recursive spec function %s needs '//@ decreases <int parameter>'", fn.Name()))
	}
	app := func(j *Term) *Term {
		as := make([]*Term, len(vars))
		for i, v := range vars {
			if v == jv {
				as[i] = j
			} else {
				as[i] = v
			}
		}
		return c.App(d.decl, as...)
	}
	succ := c.BVBin("bvadd", jv, c.BVI(1, 64))
	zero := c.litTo(c.BVI(0, 64), jv.Sort)
	var rest []*Term
	for _, v := range vars {
		if v != jv {
			rest = append(rest, v)
		}
	}
	axSucc := c.Forall(vars, c.Eq(app(succ), c.Subst(body, map[*Term]*Term{jv: succ})), app(succ))
	axZero := c.Eq(app(zero), c.Subst(body, map[*Term]*Term{jv: zero}))
	if len(rest) > 0 {
		axZero = c.Forall(rest, axZero, app(zero))
	}
	// The quantified successor equation is not given to the solvers: z3 matches the trigger
	// f(args, j+1) modulo arithmetic (j := t-1 for any f(args, t)) and unfolds forever.
	// groundUnfold supplies the instances at the index terms the engine builds.
	_ = axSucc
	c.Axioms[name] = append(c.Axioms[name], axZero)
	d.recBody, d.recVars, d.recVar = body, vars, jv
	d.unfolded = map[int]bool{}
	x.Notes.Assumed["recursive spec function "+fn.Name()+" is well-founded (it is executable Go; replay runs it); its definition is used at index 0 and at successor indices"] = true
	return d
}

// applyOpaque models an opaque spec function as an uninterpreted function.
// "opaque at" functions f(b []byte, p int, rest...) become UF(bytes(b), off(b)+p, rest...)
// and carry the frame axiom: the value only depends on bytes [q, q+extent(B,q)).
func (x *Exec) applyOpaque(st *State, fn *ssa.Function, ct *Contract, args []Value) Value {
	c := x.C
	resT := fn.Signature.Results().At(0).Type()
	rl := LayoutOf(resT)
	if len(rl.Leaves) != 1 {
		panic(fmt.Errorf("opaque spec function %s must return one scalar", fn.Name()))
	}
	name := "opq$" + fn.Name()
	if ct.OpaqueAt {
		bytesSort := ArraySort(IdxSort, BV(8))
		base, off, _, _ := sliceParts(args[0])
		elem := args[0].T.Underlying().(*types.Slice).Elem()
		arr := c.Select(x.comp(st, sliceComp(elem, 0), BV(8)), base)
		pos := c.BVBin("bvadd", off, x.toIdx(args[1]))
		flat := []*Term{arr, pos}
		sorts := []*Sort{bytesSort, IdxSort}
		for _, a := range args[2:] {
			for _, l := range a.L {
				flat = append(flat, l)
				sorts = append(sorts, l.Sort)
			}
		}
		_, known := c.Axioms[name]
		f := c.DeclareFun(name, sorts, rl.Leaves[0].Sort)
		if !known && ct.Extent != "" {
			ext := c.DeclareFun("opq$"+ct.Extent, []*Sort{bytesSort, IdxSort}, IdxSort)
			B, B2, q, i := c.Var("B", bytesSort), c.Var("B2", bytesSort), c.Var("q", IdxSort), c.Var("i", IdxSort)
			vars := []*Term{B, B2, q}
			a1, a2 := []*Term{B, q}, []*Term{B2, q}
			for k, srt := range sorts[2:] {
				v := c.Var(fmt.Sprintf("r%d", k), srt)
				vars = append(vars, v)
				a1 = append(a1, v)
				a2 = append(a2, v)
			}
			agree := c.Forall([]*Term{i}, c.Implies(c.And(c.BVCmp("bvsle", q, i), c.BVCmp("bvslt", i, c.BVBin("bvadd", q, c.App(ext, B, q)))), c.Eq(c.Select(B, i), c.Select(B2, i))))
			// multi-pattern: both applications must be present
			ax := c.intern(&Term{Op: "forall", Args: []*Term{c.Implies(agree, c.Eq(c.App(f, a2...), c.App(f, a1...)))}, Vars: vars, Pats: []*Term{c.App(f, a1...), c.App(f, a2...)}, Sort: BoolSort, Name: "multi"})
			// The quantified axiom is kept for reference only: scripts get its ground instances
			// (frameInstances) because the nested quantifier sends the solvers astray.
			_ = ax
			c.Axioms[name] = append(c.Axioms[name], c.True())
			if c.OpaqueExt == nil {
				c.OpaqueExt = map[string]string{}
			}
			c.OpaqueExt[name] = "opq$" + ct.Extent
			x.Notes.Assumed[fmt.Sprintf("frame axiom of %s: its value depends only on the %s(b,p) bytes at p (proved with definitions revealed by the lemma named verifLemma_*_frame)", fn.Name(), ct.Extent)] = true
		}
		return Value{T: resT, L: []*Term{c.App(f, flat...)}}
	}
	var flat []*Term
	var sorts []*Sort
	for _, a := range args {
		if sl, ok := a.T.Underlying().(*types.Slice); ok {
			base, off, ln, _ := sliceParts(a)
			lay := LayoutOf(sl.Elem())
			for k, lf := range lay.Leaves {
				flat = append(flat, c.Select(x.comp(st, sliceComp(sl.Elem(), k), lf.Sort), base))
				sorts = append(sorts, ArraySort(IdxSort, lf.Sort))
			}
			flat = append(flat, off, ln)
			sorts = append(sorts, IdxSort, IdxSort)
			continue
		}
		for _, l := range a.L {
			flat = append(flat, l)
			sorts = append(sorts, l.Sort)
		}
	}
	f := c.DeclareFun(name, sorts, rl.Leaves[0].Sort)
	x.attachAxiomsTo(ct, name)
	return Value{T: resT, L: []*Term{c.App(f, flat...)}}
}

// zeroSliceOffsets models a slice-typed parameter as starting at index 0 of its own
// backing array. Quantified contracts over its elements then index with the bound
// variable alone, which E-matching handles; with a symbolic offset the index terms are
// sums that the solvers normalise and no longer match. Assumption (reported): slice
// parameters of a verified function do not partially overlap each other in memory.
func (x *Exec) zeroSliceOffsets(v *Value) {
	lay := LayoutOf(v.T)
	for k, lf := range lay.Leaves {
		if lf.Role == "off" {
			v.L[k] = x.zeroLeaf(lf.Sort)
			x.Notes.Assumed["slice parameters of verified functions start at offset 0 of their own backing array (no partially overlapping slice arguments)"] = true
		}
	}
}
