package vc

import (
	"bytes"
	"context"
	"encoding/json"
	"fmt"
	"go/types"
	"math/big"
	"os"
	"os/exec"
	"path/filepath"
	"strings"
	"time"

	"golang.org/x/tools/go/ssa"
)

// ReplayOutcome is the verdict of running a solver model against the real code.
type ReplayOutcome struct {
	Attempted  bool   `json:"attempted"`
	Confirmed  bool   `json:"confirmed"`
	Spurious   bool   `json:"spurious"`
	Reason     string `json:"reason,omitempty"`
	TestSource string `json:"test_source,omitempty"`
	Transcript string `json:"transcript,omitempty"`
	Call       string `json:"call,omitempty"`
}

func modelBig(s string) (*big.Int, bool) {
	s = strings.TrimSpace(s)
	switch {
	case strings.HasPrefix(s, "#x"):
		v, ok := new(big.Int).SetString(s[2:], 16)
		return v, ok
	case strings.HasPrefix(s, "#b"):
		v, ok := new(big.Int).SetString(s[2:], 2)
		return v, ok
	case strings.HasPrefix(s, "(_ bv"):
		f := strings.Fields(s[5:])
		v, ok := new(big.Int).SetString(f[0], 10)
		return v, ok
	case strings.HasPrefix(s, "(-"):
		v, ok := new(big.Int).SetString(strings.TrimSpace(strings.Trim(s[2:], "() ")), 10)
		if ok {
			v.Neg(v)
		}
		return v, ok
	}
	v, ok := new(big.Int).SetString(s, 10)
	return v, ok
}

// goLiteral renders the model value of a scalar parameter leaf as a Go expression of type t.
func goLiteral(t types.Type, val string, qual types.Qualifier) (string, bool) {
	switch {
	case isBool(t):
		return fmt.Sprintf("%s(%s)", types.TypeString(t, qual), val), val == "true" || val == "false"
	case isInteger(t):
		v, ok := modelBig(val)
		if !ok {
			return "", false
		}
		w := intWidth(t.Underlying().(*types.Basic))
		if isSigned(t) {
			v = signed(v, w)
		}
		if isSigned(t) && v.Sign() < 0 {
			return fmt.Sprintf("%s(%s)", types.TypeString(t, qual), v.String()), true
		}
		return fmt.Sprintf("%s(0x%s)", types.TypeString(t, qual), v.Text(16)), true
	}
	return "", false
}

// lemmaCall builds the Go call expression `fn(args...)` from a model, for
// lemmas whose parameters are scalars, fixed arrays or structs of scalars.
func lemmaCall(fn *ssa.Function, inputs []NamedTerm, model map[string]string, imports map[string]string) (string, error) {
	pkg := fn.Pkg.Pkg
	qual := func(p *types.Package) string {
		if p == pkg {
			return ""
		}
		imports[p.Path()] = p.Name()
		return p.Name()
	}
	k := 0
	strVals := map[string]string{}
	byName := map[string]NamedTerm{}
	for _, in := range inputs {
		byName[in.Name] = in
	}
	pname := ""
	var render func(t types.Type) (string, error)
	render = func(t types.Type) (string, error) {
		switch u := t.Underlying().(type) {
		case *types.Slice:
			// leaves: base, off, len, cap; elements were named <param>[i] by the falsifier
			if k+4 > len(inputs) {
				return "", fmt.Errorf("model is missing inputs")
			}
			lenIn := inputs[k+2]
			k += 4
			for k < len(inputs) && strings.HasPrefix(inputs[k].Name, pname+"[") {
				k++ // named elements follow the slice header in the input list
			}
			lv, ok := modelBig(model[lenIn.T.Name])
			if !ok {
				lv = big.NewInt(0)
			}
			if !lv.IsInt64() || lv.Int64() < 0 || lv.Int64() > 4096 {
				return "", fmt.Errorf("model needs a slice of length %s; only lengths up to 4096 are rebuilt", lv)
			}
			var parts []string
			for i := int64(0); i < lv.Int64(); i++ {
				// the first 8 elements are named in the model; the rest are left zero
				val := "0"
				if en, ok := byName[fmt.Sprintf("%s[%d]", pname, i)]; ok {
					if mv, ok := model[en.T.Name]; ok {
						val = mv
					}
				} else if i < 8 {
					return "", fmt.Errorf("slice elements of %s are not part of the model", pname)
				}
				lit, ok := goLiteral(u.Elem(), val, qual)
				if !ok {
					return "", fmt.Errorf("cannot render element %q", val)
				}
				parts = append(parts, lit)
			}
			return fmt.Sprintf("%s{%s}", types.TypeString(t, qual), strings.Join(parts, ", ")), nil
		case *types.Basic:
			if k >= len(inputs) {
				return "", fmt.Errorf("model is missing inputs")
			}
			in := inputs[k]
			k++
			val, ok := model[in.T.Name]
			if !ok {
				// an input the solver did not need: any value works
				if isBool(t) {
					val = "false"
				} else {
					val = "0"
				}
			}
			if isString(t) {
				// strings are an uninterpreted sort: distinct model values become distinct Go strings
				// (sound for lemmas that only compare strings for equality)
				if _, seen := strVals[val]; !seen {
					strVals[val] = fmt.Sprintf("s%d", len(strVals))
				}
				return fmt.Sprintf("%s(%q)", types.TypeString(t, qual), strVals[val]), nil
			}
			if isFloat(t) {
				return "", fmt.Errorf("parameter of type %s cannot be rebuilt from a model", t)
			}
			s, ok := goLiteral(t, val, qual)
			if !ok {
				return "", fmt.Errorf("cannot render model value %q as %s", val, t)
			}
			return s, nil
		case *types.Array:
			var parts []string
			for i := int64(0); i < u.Len(); i++ {
				s, err := render(u.Elem())
				if err != nil {
					return "", err
				}
				parts = append(parts, s)
			}
			return fmt.Sprintf("%s{%s}", types.TypeString(t, qual), strings.Join(parts, ", ")), nil
		case *types.Struct:
			var parts []string
			for i := 0; i < u.NumFields(); i++ {
				s, err := render(u.Field(i).Type())
				if err != nil {
					return "", err
				}
				parts = append(parts, u.Field(i).Name()+": "+s)
			}
			return fmt.Sprintf("%s{%s}", types.TypeString(t, qual), strings.Join(parts, ", ")), nil
		}
		return "", fmt.Errorf("parameter of type %s cannot be rebuilt from a model", t)
	}
	var args []string
	for _, p := range fn.Params {
		pname = p.Name()
		s, err := render(p.Type())
		if err != nil {
			return "", err
		}
		args = append(args, s)
	}
	return fmt.Sprintf("%s(%s)", fn.Name(), strings.Join(args, ", ")), nil
}

// ReplayLemma runs a lemma with concrete arguments against the real code via an overlay test.
func ReplayLemma(prog *Program, fn *ssa.Function, inputs []NamedTerm, model map[string]string, workDir string) *ReplayOutcome {
	out := &ReplayOutcome{}
	imports := map[string]string{}
	call, err := lemmaCall(fn, inputs, model, imports)
	if err != nil {
		out.Reason = err.Error()
		return out
	}
	out.Call = call
	pkgName := fn.Pkg.Pkg.Name()
	src := fmt.Sprintf(`//go:build verif

package %s

import "testing"
%s
func TestVerifReplay(t *testing.T) {
	defer func() {
		if r := recover(); r != nil {
			t.Fatalf("REPLAY-PANIC: %%v", r)
		}
	}()
	%s
	t.Log("REPLAY-PASSED")
}
`, pkgName, importLines(imports), call)
	out.TestSource = src
	return runOverlayTest(fn.Pkg.Pkg.Path(), src, workDir, out)
}

func runOverlayTest(pkgPath, src, workDir string, out *ReplayOutcome) *ReplayOutcome {
	return runOverlayTestNamed(pkgPath, src, workDir, out, "^TestVerifReplay$")
}

func runOverlayTestNamed(pkgPath, src, workDir string, out *ReplayOutcome, runPat string) *ReplayOutcome {
	out.Attempted = true
	rel := strings.TrimPrefix(pkgPath, ModulePath)
	pkgDir := filepath.Join(ModuleDir(), rel)
	dir, err := os.MkdirTemp(workDir, "replay")
	if err != nil {
		out.Reason = err.Error()
		return out
	}
	testFile := filepath.Join(dir, "zz_verif_replay_test.go")
	os.WriteFile(testFile, []byte(src), 0o644)
	ov := map[string]map[string]string{"Replace": {filepath.Join(pkgDir, "zz_verif_replay_test.go"): testFile}}
	ovb, _ := json.Marshal(ov)
	ovFile := filepath.Join(dir, "overlay.json")
	os.WriteFile(ovFile, ovb, 0o644)
	ctx, cancel := context.WithTimeout(context.Background(), 180*time.Second)
	defer cancel()
	cmd := exec.CommandContext(ctx, "go", "test", "-tags", "verif", "-overlay", ovFile, "-vet=off", "-count=1", "-timeout", "60s", "-run", runPat, "-v", "."+rel)
	cmd.Dir = ModuleDir()
	cmd.Env = append(os.Environ(), "GOFLAGS=-mod=mod", "GOPROXY=off", "GOSUMDB=off", "GOTOOLCHAIN=local")
	var buf bytes.Buffer
	cmd.Stdout = &buf
	cmd.Stderr = &buf
	runErr := cmd.Run()
	tr := buf.String()
	if len(tr) > 6000 {
		tr = tr[:3000] + "\n…\n" + tr[len(tr)-3000:]
	}
	out.Transcript = tr
	switch {
	case strings.Contains(tr, "VERIF-ASSUME-FAILED"):
		out.Spurious = true
		out.Reason = "the model violates an assumption of the lemma when run concretely"
	case strings.Contains(tr, "VERIF-ASSERT-FAILED"), strings.Contains(tr, "REPLAY-PANIC"), strings.Contains(tr, "REPLAY-FAILED"):
		out.Confirmed = true
	case strings.Contains(tr, "fatal error:") || strings.Contains(tr, "panic:") || strings.Contains(tr, "test timed out"):
		out.Confirmed = true // the test binary died: the real code crashed or hung on this input
		out.Reason = "test binary died (crash or timeout) on the replayed input"
	case runErr == nil && strings.Contains(tr, "REPLAY-PASSED"):
		out.Reason = "the real code satisfies the obligation on the solver's model (model relies on an abstraction)"
	default:
		out.Reason = "replay could not be built or run"
	}
	return out
}

// ReplayWitness runs a hand-written witness scenario (a test function kept under
// /verif/witness, injected into the package by overlay) against the real code.
func ReplayWitness(pkgPath, witnessFile, testName, workDir string) *ReplayOutcome {
	out := &ReplayOutcome{Call: testName + " (" + witnessFile + ")"}
	src, err := os.ReadFile(filepath.Join(VerifDir(), "witness", witnessFile))
	if err != nil {
		out.Reason = err.Error()
		return out
	}
	out.TestSource = string(src)
	return runOverlayTestNamed(pkgPath, string(src), workDir, out, "^"+testName+"$")
}

// ReplayFunc replays a counterexample of a function-contract obligation. Only
// functions whose parameters are scalars can be rebuilt from a model; others
// are reported without a failing input.
func ReplayFunc(prog *Program, fn *ssa.Function, ct *Contract, o *Obligation, model map[string]string, workDir string) *ReplayOutcome {
	return &ReplayOutcome{Reason: "pre-state of a function contract with heap-typed parameters is not rebuilt from the model; see the falsifier lemmas of this property for concrete inputs"}
}

func importLines(imports map[string]string) string {
	var sb strings.Builder
	for path, name := range imports {
		fmt.Fprintf(&sb, "import %s %q\n", name, path)
	}
	return sb.String()
}
