package vc

import (
	"fmt"
	"go/types"
	"os"
	"os/exec"
	"strings"

	"golang.org/x/tools/go/ssa"
)

// Path mode (unit option "paths": true): bounded lemmas over small concrete
// shapes are executed path by path, forking at every symbolic branch and never
// merging, so that lengths, offsets and aliasing stay literal and each
// obligation is tiny. Loops are unrolled to the unit's bound (with unwinding
// assertions when the unit is "complete"). Inlined calls continue per path.

type inlineRequest struct {
	callee   *ssa.Function
	args     []Value
	bindings []Value
}

// ExecPaths runs fr.fn from st along every path and calls k at each return.
func (x *Exec) ExecPaths(fr *frame, st *State, k func(st *State, val Value)) {
	fn := fr.fn
	if fn.Blocks == nil {
		panic(unsupported("no body for " + fn.String()))
	}
	// fn.Recover exists for every function with a defer; only deferred calls that are known
	// no-ops (unlock, Done) are accepted by execInstr, so no recover() can intercept a panic here.
	fi := x.funcInfo(fn)
	fr.fi = fi
	for i, p := range fn.Params {
		st.Env[p] = fr.args[i]
	}
	for i, fv := range fn.FreeVars {
		if i < len(fr.bindings) {
			st.Env[fv] = fr.bindings[i]
		}
	}
	x.pathSteps++
	x.checkLimits()
	if x.pathSteps > 200000 {
		panic(unsupported("path explosion in " + fn.String()))
	}
	bound := func(l *loopInfo) int {
		n := x.Opt.Unroll
		if fr.contract != nil {
			if lc := fr.contract.Loops[l.ordinal]; lc != nil && lc.Unroll > 0 {
				n = lc.Unroll
			}
		}
		return n
	}
	var runBlock func(b, prev *ssa.BasicBlock, st *State, visits map[*ssa.BasicBlock]int)
	var runFrom func(b *ssa.BasicBlock, idx int, st *State, visits map[*ssa.BasicBlock]int)
	runBlock = func(b, prev *ssa.BasicBlock, st *State, visits map[*ssa.BasicBlock]int) {
		if st.PC.IsFalse() {
			return
		}
		// phis: evaluated simultaneously from the predecessor's environment
		if prev != nil {
			idx := -1
			for i, p := range b.Preds {
				if p == prev {
					idx = i
				}
			}
			type pv struct {
				phi *ssa.Phi
				v   Value
			}
			var vals []pv
			for _, ins := range b.Instrs {
				phi, ok := ins.(*ssa.Phi)
				if !ok {
					break
				}
				v := x.operand(st, phi.Edges[idx])
				v.T = phi.Type()
				vals = append(vals, pv{phi, v})
			}
			for _, p := range vals {
				st.Env[p.phi] = p.v
			}
		}
		if l := fi.byHeader[b]; l != nil {
			// a new iteration of l restarts the loops nested inside it
			for _, m := range fi.loops {
				for p := m.parent; p != nil; p = p.parent {
					if p == l {
						delete(visits, m.header)
					}
				}
			}
			visits[b]++
			if visits[b] > bound(l)+1 {
				if x.Opt.UnwindMust {
					x.addObl(st, "unwind", fmt.Sprintf("%s.loop%d", fn.Name(), l.ordinal), x.C.False(), b.Instrs[0].Pos(), fmt.Sprintf("loop %d of %s needs no more than %d iterations", l.ordinal, fn.Name(), bound(l)))
				} else {
					x.Notes.Bounds[fmt.Sprintf("%s loop %d unrolled %d times (paths needing more iterations are not explored)", QualName(fn), l.ordinal, bound(l))] = true
				}
				return
			}
		}
		runFrom(b, 0, st, visits)
	}
	copyVisits := func(v map[*ssa.BasicBlock]int) map[*ssa.BasicBlock]int {
		n := make(map[*ssa.BasicBlock]int, len(v))
		for k, c := range v {
			n[k] = c
		}
		return n
	}
	runFrom = func(b *ssa.BasicBlock, idx int, st *State, visits map[*ssa.BasicBlock]int) {
		for ; idx < len(b.Instrs); idx++ {
			if st.PC.IsFalse() {
				return
			}
			ins := b.Instrs[idx]
			switch ins := ins.(type) {
			case *ssa.Phi, *ssa.DebugRef:
				continue
			case *ssa.If:
				cond := x.operand(st, ins.Cond).L[0]
				// a condition already decided on this path (same term) is not forked again
				if pcHas(st.PC, cond) {
					cond = x.C.True()
				} else if pcHas(st.PC, x.C.Not(cond)) {
					cond = x.C.False()
				}
				if traceForks && !cond.IsTrue() && !cond.IsFalse() {
					fmt.Fprintf(os.Stderr, "FORK %s %s: %s\n", fn.Name(), x.Prog.Pos(ins.Cond.Pos()), x.C.Show(cond))
				}
				for bi, c := range []*Term{cond, x.C.Not(cond)} {
					pc := x.C.And(st.PC, c)
					if pc.IsFalse() {
						continue
					}
					if x.Opt.Prune && !c.IsTrue() && !x.feasible(pc) {
						continue // the solver refutes this side under the path condition: dead path
					}
					sub := st
					if !c.IsTrue() {
						sub = st.snapshot()
					}
					sub.PC = pc
					runBlock(b.Succs[bi], b, sub, copyVisits(visits))
				}
				return
			case *ssa.Jump:
				runBlock(b.Succs[0], b, st, visits)
				return
			case *ssa.Return:
				var val Value
				switch len(ins.Results) {
				case 0:
				case 1:
					val = x.operand(st, ins.Results[0])
					val.T = fn.Signature.Results().At(0).Type()
				default:
					val = Value{T: fn.Signature.Results()}
					for i, r := range ins.Results {
						rv := x.operand(st, r)
						rv.T = fn.Signature.Results().At(i).Type()
						val.Tuple = append(val.Tuple, rv)
					}
				}
				k(st, val)
				return
			case *ssa.Panic:
				if x.Opt.NoPanic {
					x.addObl(st, "nopanic", "explicit", x.C.False(), ins.Pos(), "explicit panic is unreachable")
				}
				return
			}
			// an append whose capacity test is symbolic forks the path
			if call, ok := ins.(*ssa.Call); ok {
				if bi, ok := call.Call.Value.(*ssa.Builtin); ok && bi.Name() == "append" {
					sv := x.operand(st, call.Call.Args[0])
					tv := x.operand(st, call.Call.Args[1])
					if len(tv.L) == 4 && !isString(tv.T) {
						fits := x.C.BVCmp("bvsle", x.C.BVBin("bvadd", sv.L[2], tv.L[2]), sv.L[3])
						if !fits.IsTrue() && !fits.IsFalse() && !pcHas(st.PC, fits) && !pcHas(st.PC, x.C.Not(fits)) {
							for _, c := range []*Term{fits, x.C.Not(fits)} {
								sub := st.snapshot()
								sub.PC = x.C.And(sub.PC, c)
								runFrom(b, idx, sub, copyVisits(visits))
							}
							return
						}
					}
				}
			}
			// ordinary instruction; an inlined call continues per path
			req := x.tryInstr(fr, st, ins)
			if req == nil {
				continue
			}
			callerEnv := st.Env
			nfr := &frame{fn: req.callee, args: req.args, bindings: req.bindings}
			if ct := x.Prog.Contracts[QualName(req.callee)]; ct != nil {
				nfr.contract = ct
			}
			for i, p := range req.callee.Params {
				if i < len(req.args) {
					req.args[i].T = p.Type()
				}
			}
			sub := &State{PC: st.PC, Heap: st.Heap, Alloc: st.Alloc, Env: map[ssa.Value]Value{}}
			x.copyGhost(st.Env, sub.Env)
			savedStack := x.stack
			x.stack = append(append([]*ssa.Function{}, x.stack...), req.callee)
			next := idx + 1
			x.ExecPaths(nfr, sub, func(rst *State, val Value) {
				cont := &State{PC: rst.PC, Heap: rst.Heap, Alloc: rst.Alloc, Env: copyEnv(callerEnv)}
				x.copyGhost(rst.Env, cont.Env)
				if v, ok := ins.(ssa.Value); ok {
					cont.Env[v] = val
				}
				inner := x.stack
				x.stack = savedStack
				runFrom(b, next, cont, copyVisits(visits))
				x.stack = inner
			})
			x.stack = savedStack
			return
		}
	}
	runBlock(fn.Blocks[0], nil, st, map[*ssa.BasicBlock]int{})
}

// tryInstr executes one instruction; when it is a call that would be inlined it
// returns the request instead (the caller inlines it per path).
func (x *Exec) tryInstr(fr *frame, st *State, ins ssa.Instruction) (req *inlineRequest) {
	defer func() {
		if r := recover(); r != nil {
			if ir, ok := r.(*inlineRequest); ok {
				req = ir
				return
			}
			panic(r)
		}
	}()
	x.pathInline = true
	defer func() { x.pathInline = false }()
	x.execInstr(fr, st, ins)
	return nil
}

// appendForkless: in path mode an append with a symbolic capacity test is decided by
// forking at the instruction level (execFrom does it in merge mode); here the capacity
// of literal-built slices is literal, so nothing is needed.
var _ = types.Typ

var traceForks = os.Getenv("B6VC_TRACE") != ""

// feasible asks the solver whether a path condition is satisfiable (unit option "prune").
// Only a definite "unsat" prunes; anything else keeps the path. Sound: a pruned path has an
// unsatisfiable condition, every obligation on it would hold vacuously.
func (x *Exec) feasible(pc *Term) bool {
	x.pruneQueries++
	q := x.C.StripQuant(x.coneOfInfluence(pc))
	x.C.SkipQuantAxioms = true
	qf, uf, arr, ints := termFeatures([]*Term{q}, x.C)
	script := "(set-option :produce-models false)\n" + x.C.Script(pickLogic(qf, uf, arr, ints), []*Term{q}, nil)
	x.C.SkipQuantAxioms = false
	if os.Getenv("B6VC_PRUNE_DUMP") != "" {
		os.WriteFile(fmt.Sprintf("/var/tmp/prune-%d.smt2", x.pruneQueries), []byte(script), 0o644)
	}
	cmd := exec.Command("z3-new", "-T:5", "-in")
	cmd.Stdin = strings.NewReader(script)
	out, _ := cmd.Output()
	first := strings.TrimSpace(strings.SplitN(strings.TrimSpace(string(out)), "\n", 2)[0])
	if first == "unsat" {
		x.pruned++
		return false
	}
	return true
}

// coneOfInfluence keeps the conjuncts of a path condition that share a symbol, directly or
// through other conjuncts, with its last conjunct (the branch condition just added). The
// rest of the path condition is satisfiable on its own (every earlier fork was checked), so
// dropping it can only make the query weaker: fewer paths are pruned, never a feasible one.
func (x *Exec) coneOfInfluence(pc *Term) *Term {
	var conj []*Term
	var flat func(t *Term)
	flat = func(t *Term) {
		if t.Op == "and" {
			for _, a := range t.Args {
				flat(a)
			}
			return
		}
		conj = append(conj, t)
	}
	flat(pc)
	if len(conj) < 8 {
		return pc
	}
	last0 := len(conj) - 1
	_ = last0
	if x.symCache == nil {
		x.symCache = map[int]map[string]bool{}
	}
	var syms func(t *Term) map[string]bool
	syms = func(t *Term) map[string]bool {
		if m, ok := x.symCache[t.ID]; ok {
			return m
		}
		m := map[string]bool{}
		if (t.Op == "const" || t.Op == "app") && t.Name != "" {
			m[t.Name] = true
		}
		for _, a := range t.Args {
			for k := range syms(a) {
				m[k] = true
			}
		}
		x.symCache[t.ID] = m
		return m
	}
	last := len(conj) - 1
	// Fast path: the branch condition only mentions input parameters of the lemma. Then the
	// conjuncts that mention only input parameters are a sufficient (weaker, hence sound)
	// context: the query stays tiny however long the path is.
	onlyInputs := func(m map[string]bool) bool {
		for k := range m {
			if strings.HasPrefix(k, "in$") || k == "alloc0" {
				continue
			}
			if d := x.C.Funcs[k]; d != nil && d.DefBody != nil && strings.HasPrefix(k, "spec$") {
				continue // a defined (closed) spec function
			}
			return false
		}
		return true
	}
	if traceForks {
		cs := syms(conj[last])
		var names []string
		for k := range cs {
			if !strings.HasPrefix(k, "in$") {
				names = append(names, k)
			}
		}
		if len(names) > 6 {
			names = names[:6]
		}
		fmt.Fprintf(os.Stderr, "PRUNE-SYMS non-input=%v\n", names)
	}
	if cs := syms(conj[last]); len(cs) > 0 && onlyInputs(cs) {
		out := []*Term{}
		for _, c := range conj {
			if onlyInputs(syms(c)) {
				out = append(out, c)
			}
		}
		return x.C.And(out...)
	}
	keep := make([]bool, len(conj))
	front := map[string]bool{}
	keep[last] = true
	for k := range syms(conj[last]) {
		front[k] = true
	}
	for changed := true; changed; {
		changed = false
		for i, c := range conj {
			if keep[i] {
				continue
			}
			cs := syms(c)
			hit := false
			for k := range cs {
				if front[k] {
					hit = true
					break
				}
			}
			if hit {
				keep[i] = true
				changed = true
				for k := range cs {
					front[k] = true
				}
			}
		}
	}
	var out []*Term
	for i, c := range conj {
		if keep[i] {
			out = append(out, c)
		}
	}
	return x.C.And(out...)
}
