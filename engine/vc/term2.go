package vc

// Relativize strips the conjuncts common to all conditions: under the
// disjunction of the originals the stripped conditions discriminate the same
// cases, and ite-chains built from them stay small.
func (c *Ctx) Relativize(conds []*Term) []*Term {
	if len(conds) < 2 {
		return conds
	}
	common := map[int]bool{}
	for i, d := range conds {
		cs := []*Term{d}
		if d.Op == "and" {
			cs = d.Args
		}
		if i == 0 {
			for _, x := range cs {
				common[x.ID] = true
			}
			continue
		}
		here := map[int]bool{}
		for _, x := range cs {
			here[x.ID] = true
		}
		for id := range common {
			if !here[id] {
				delete(common, id)
			}
		}
	}
	if len(common) == 0 {
		return conds
	}
	out := make([]*Term, len(conds))
	for i, d := range conds {
		cs := []*Term{d}
		if d.Op == "and" {
			cs = d.Args
		}
		var keep []*Term
		for _, x := range cs {
			if !common[x.ID] {
				keep = append(keep, x)
			}
		}
		out[i] = c.And(keep...)
	}
	return out
}

// autoPatterns picks E-matching triggers for a quantifier over v: the smallest
// select / uninterpreted-application subterms that contain v (each is an
// alternative pattern). Solvers infer poor triggers when array indices contain
// bit-vector arithmetic.
func autoPatterns(body, v *Term) []*Term {
	contains := map[int]bool{}
	var has func(t *Term) bool
	has = func(t *Term) bool {
		if r, ok := contains[t.ID]; ok {
			return r
		}
		r := t == v
		for _, a := range t.Args {
			if has(a) {
				r = true
			}
		}
		contains[t.ID] = r
		return r
	}
	var cands []*Term
	seen := map[int]bool{}
	var walk func(t *Term)
	walk = func(t *Term) {
		if seen[t.ID] || !has(t) {
			return
		}
		seen[t.ID] = true
		if t.Op == "forall" || t.Op == "exists" {
			return
		}
		for _, a := range t.Args {
			walk(a)
		}
		if t.Op == "select" || t.Op == "app" {
			// minimal: no proper subterm that is itself a candidate containing v
			minimal := true
			for _, a := range t.Args {
				if has(a) && hasCandidate(a, has) {
					minimal = false
				}
			}
			if minimal {
				cands = append(cands, t)
			}
		}
	}
	walk(body)
	if len(cands) > 4 {
		cands = cands[:4]
	}
	return cands
}

func hasCandidate(t *Term, has func(*Term) bool) bool {
	if !has(t) {
		return false
	}
	if t.Op == "select" || t.Op == "app" {
		return true
	}
	for _, a := range t.Args {
		if hasCandidate(a, has) {
			return true
		}
	}
	return false
}

// pcHas reports whether t is one of the top-level conjuncts of pc.
func pcHas(pc, t *Term) bool {
	if pc == t {
		return true
	}
	if pc.Op == "and" {
		for _, a := range pc.Args {
			if a == t {
				return true
			}
		}
	}
	return false
}

// NegSkolem returns the negation of goal with its top-level universal
// quantifiers skolemized (fresh constants for the bound variables). The
// solvers do much better on this form than on (not (forall ...)).
func (c *Ctx) NegSkolem(goal *Term) *Term {
	switch goal.Op {
	case "and":
		parts := make([]*Term, len(goal.Args))
		for i, g := range goal.Args {
			parts[i] = c.NegSkolem(g)
		}
		return c.Or(parts...)
	case "forall":
		m := map[*Term]*Term{}
		for _, v := range goal.Vars {
			m[v] = c.Fresh("sk$"+v.Name, v.Sort)
		}
		return c.NegSkolem(c.Subst(goal.Args[0], m))
	case "=>":
		return c.And(goal.Args[0], c.NegSkolem(goal.Args[1]))
	}
	return c.Not(goal)
}

// frameInstances returns ground instances of the frame axiom of the opaque
// "at" functions: for every ground application f(B2, q, r...) reachable from
// the asserted terms (looking through defined functions) and every other
// ground byte array B used with such functions,
//
//	(exists i in [q, q+ext(B,q)): B[i] != B2[i])  or  f(B2,q,r...) = f(B,q,r...)
//
// with the existential skolemized. This replaces the quantified axiom.
func frameInstances(c *Ctx, asserts []*Term) []*Term {
	if len(c.OpaqueExt) == 0 {
		return nil
	}
	type appKey struct{ id int }
	apps := map[int]*Term{}
	arrs := map[int]*Term{}
	seen := map[int]bool{}
	var walk func(t *Term, depth int)
	walk = func(t *Term, depth int) {
		if seen[t.ID] {
			return
		}
		seen[t.ID] = true
		if t.Op == "app" {
			if _, ok := c.OpaqueExt[t.Name]; ok {
				if !t.Args[0].Bound {
					arrs[t.Args[0].ID] = t.Args[0]
				}
				if !t.Bound {
					apps[t.ID] = t
				}
			} else if d := c.Funcs[t.Name]; d != nil && d.DefBody != nil && !t.Bound && depth < 4 {
				m := map[*Term]*Term{}
				for i, v := range d.DefVars {
					m[v] = t.Args[i]
				}
				walk(c.Subst(d.DefBody, m), depth+1)
			} else if d != nil && d.DefBody != nil && depth < 4 {
				// bound application of a defined function: its body may still name ground arrays
				m := map[*Term]*Term{}
				for i, v := range d.DefVars {
					m[v] = t.Args[i]
				}
				walk(c.Subst(d.DefBody, m), depth+1)
			}
		}
		for _, a := range t.Args {
			walk(a, depth)
		}
	}
	for _, a := range asserts {
		walk(a, 0)
	}
	var out []*Term
	ids := make([]int, 0, len(apps))
	for id := range apps {
		ids = append(ids, id)
	}
	sortInts(ids)
	aids := make([]int, 0, len(arrs))
	for id := range arrs {
		aids = append(aids, id)
	}
	sortInts(aids)
	if len(ids)*len(aids) > 400 {
		return nil
	}
	for _, id := range ids {
		app := apps[id]
		ext := c.Funcs[c.OpaqueExt[app.Name]]
		if ext == nil {
			continue
		}
		B2, q := app.Args[0], app.Args[1]
		for _, aid := range aids {
			B := arrs[aid]
			if B == B2 {
				continue
			}
			args := append([]*Term{B}, app.Args[1:]...)
			other := c.App(c.Funcs[app.Name], args...)
			sk := c.Fresh("sk$frame", IdxSort)
			differ := c.And(c.BVCmp("bvsle", q, sk), c.BVCmp("bvslt", sk, c.BVBin("bvadd", q, c.App(ext, B, q))), c.Distinct(c.Select(B, sk), c.Select(B2, sk)))
			// Only when the extent at (B,q) is positive: an extent of 0 means "nothing well-formed
			// starts here", and then the value over another array is not determined by B at all.
			out = append(out, c.Or(c.BVCmp("bvsle", c.App(ext, B, q), c.BVI(0, 64)), differ, c.Eq(app, other)))
		}
	}
	return out
}

func sortInts(a []int) {
	for i := 1; i < len(a); i++ {
		for j := i; j > 0 && a[j-1] > a[j]; j-- {
			a[j-1], a[j] = a[j], a[j-1]
		}
	}
}
