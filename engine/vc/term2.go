package vc

// Relativize strips the conjuncts common to all conditions: under the
// disjunction of the originals the stripped conditions discriminate the same
// cases, and ite-chains built from them stay small.
func (c *Ctx) Relativize(conds []*Term) []*Term {
	if len(conds) < 2 {
		return conds
	}
	common := map[int]bool{}
	for i, d := range conds {
		cs := []*Term{d}
		if d.Op == "and" {
			cs = d.Args
		}
		if i == 0 {
			for _, x := range cs {
				common[x.ID] = true
			}
			continue
		}
		here := map[int]bool{}
		for _, x := range cs {
			here[x.ID] = true
		}
		for id := range common {
			if !here[id] {
				delete(common, id)
			}
		}
	}
	if len(common) == 0 {
		return conds
	}
	out := make([]*Term, len(conds))
	for i, d := range conds {
		cs := []*Term{d}
		if d.Op == "and" {
			cs = d.Args
		}
		var keep []*Term
		for _, x := range cs {
			if !common[x.ID] {
				keep = append(keep, x)
			}
		}
		out[i] = c.And(keep...)
	}
	return out
}
