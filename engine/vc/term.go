// Package vc is the b6vc verification-condition generator: symbolic
// execution of go/ssa with contracts, emitting SMT-LIB obligations.
package vc

import (
	"fmt"
	"math/big"
	"sort"
	"strings"
)

// ---------------------------------------------------------------- sorts

type SortKind int

const (
	SBool SortKind = iota
	SBV
	SInt
	SArray
	SUninterp
	SData // tuple datatype (composite map keys)
)

type Sort struct {
	Kind SortKind
	W    int
	Idx  *Sort
	Elem *Sort
	Name string
	Fields []*Sort // SData
}

var (
	BoolSort = &Sort{Kind: SBool}
	IntSort  = &Sort{Kind: SInt}
	bvSorts  = map[int]*Sort{}
	arrSorts = map[string]*Sort{}
	unSorts  = map[string]*Sort{}
)

func BV(w int) *Sort {
	if s, ok := bvSorts[w]; ok {
		return s
	}
	s := &Sort{Kind: SBV, W: w}
	bvSorts[w] = s
	return s
}

func ArraySort(idx, elem *Sort) *Sort {
	k := idx.String() + ">" + elem.String()
	if s, ok := arrSorts[k]; ok {
		return s
	}
	s := &Sort{Kind: SArray, Idx: idx, Elem: elem}
	arrSorts[k] = s
	return s
}

func Uninterp(name string) *Sort {
	if s, ok := unSorts[name]; ok {
		return s
	}
	s := &Sort{Kind: SUninterp, Name: name}
	unSorts[name] = s
	return s
}

var dataSorts = map[string]*Sort{}

// TupleSort is a datatype with one constructor mk$<name> over the given field sorts.
func TupleSort(name string, fields []*Sort) *Sort {
	if s, ok := dataSorts[name]; ok {
		return s
	}
	s := &Sort{Kind: SData, Name: name, Fields: fields}
	dataSorts[name] = s
	return s
}

func (c *Ctx) MkTuple(s *Sort, fields ...*Term) *Term {
	return c.intern(&Term{Op: "mktuple", Name: s.Name, Args: fields, Sort: s})
}

func (s *Sort) String() string {
	switch s.Kind {
	case SBool:
		return "Bool"
	case SBV:
		return fmt.Sprintf("(_ BitVec %d)", s.W)
	case SInt:
		return "Int"
	case SArray:
		return "(Array " + s.Idx.String() + " " + s.Elem.String() + ")"
	default:
		return s.Name
	}
}

// ---------------------------------------------------------------- terms

type Term struct {
	Op    string // SMT operator, or "const" (declared symbol), "bvlit", "intlit", "true", "false", "var" (bound), "app" (UF application, Name), "forall", "exists"
	Name  string
	Args  []*Term
	Sort  *Sort
	Val   *big.Int // literals
	ID    int
	Bound bool    // contains a bound variable
	Pats  []*Term // forall/exists triggers
	Vars  []*Term // forall/exists bound vars
}

type FuncDecl struct {
	Name   string
	Params []*Sort
	Result *Sort
	// Optional definition (define-fun / define-fun-rec): parameters and body.
	DefVars []*Term
	DefBody *Term
	Rec     bool
}

// Ctx is a term factory with hash-consing plus declared symbols.
type Ctx struct {
	table  map[string]*Term
	nextID int
	Consts map[string]*Sort // declared 0-ary symbols
	Funcs  map[string]*FuncDecl
	Axioms map[string][]*Term // function symbol -> axioms included when the symbol is used
	// SkipQuantAxioms drops quantified axioms from scripts (satisfiability checks of vacuity guards).
	SkipQuantAxioms bool
	// OpaqueExt: opaque "at" function symbol -> its extent function symbol (frame instances).
	OpaqueExt map[string]string
	selCache  map[[2]int]*Term
	fresh  map[string]int
}

func NewCtx() *Ctx {
	return &Ctx{table: map[string]*Term{}, Consts: map[string]*Sort{}, Funcs: map[string]*FuncDecl{}, Axioms: map[string][]*Term{}, fresh: map[string]int{}}
}

func (c *Ctx) intern(t *Term) *Term {
	var sb strings.Builder
	sb.WriteString(t.Op)
	sb.WriteByte('|')
	sb.WriteString(t.Name)
	sb.WriteByte('|')
	if t.Val != nil {
		sb.WriteString(t.Val.String())
	}
	sb.WriteByte('|')
	sb.WriteString(t.Sort.String())
	for _, a := range t.Args {
		fmt.Fprintf(&sb, ",%d", a.ID)
	}
	for _, a := range t.Vars {
		fmt.Fprintf(&sb, ";%d", a.ID)
	}
	for _, a := range t.Pats {
		fmt.Fprintf(&sb, "!%d", a.ID)
	}
	k := sb.String()
	if e, ok := c.table[k]; ok {
		return e
	}
	c.nextID++
	t.ID = c.nextID
	for _, a := range t.Args {
		if a.Bound {
			t.Bound = true
		}
	}
	if t.Op == "var" {
		t.Bound = true
	}
	if t.Op == "forall" || t.Op == "exists" {
		// closedness is approximated: still flagged bound if body has other free bound vars;
		// we conservatively keep Bound = true only when nested vars other than ours appear.
		t.Bound = false
		free := map[int]bool{}
		collectBound(t.Args[0], free, map[int]bool{})
		for _, v := range t.Vars {
			delete(free, v.ID)
		}
		if len(free) > 0 {
			t.Bound = true
		}
	}
	c.table[k] = t
	return t
}

func collectBound(t *Term, out map[int]bool, seen map[int]bool) {
	if !t.Bound || seen[t.ID] {
		return
	}
	seen[t.ID] = true
	if t.Op == "var" {
		out[t.ID] = true
		return
	}
	if t.Op == "forall" || t.Op == "exists" {
		inner := map[int]bool{}
		collectBound(t.Args[0], inner, map[int]bool{})
		for _, v := range t.Vars {
			delete(inner, v.ID)
		}
		for k := range inner {
			out[k] = true
		}
		return
	}
	for _, a := range t.Args {
		collectBound(a, out, seen)
	}
}

func (c *Ctx) True() *Term  { return c.intern(&Term{Op: "true", Sort: BoolSort}) }
func (c *Ctx) False() *Term { return c.intern(&Term{Op: "false", Sort: BoolSort}) }
func (c *Ctx) Bool(b bool) *Term {
	if b {
		return c.True()
	}
	return c.False()
}

func (c *Ctx) BVLit(v *big.Int, w int) *Term {
	m := new(big.Int).Lsh(big.NewInt(1), uint(w))
	x := new(big.Int).Mod(v, m)
	if x.Sign() < 0 {
		x.Add(x, m)
	}
	return c.intern(&Term{Op: "bvlit", Val: x, Sort: BV(w)})
}
func (c *Ctx) BVU(v uint64, w int) *Term { return c.BVLit(new(big.Int).SetUint64(v), w) }
func (c *Ctx) BVI(v int64, w int) *Term  { return c.BVLit(big.NewInt(v), w) }
func (c *Ctx) IntLit(v int64) *Term {
	return c.intern(&Term{Op: "intlit", Val: big.NewInt(v), Sort: IntSort})
}

// Const returns a declared 0-ary symbol (declaring it if new).
func (c *Ctx) Const(name string, s *Sort) *Term {
	if old, ok := c.Consts[name]; ok && old != s {
		panic("const redeclared with different sort: " + name)
	}
	c.Consts[name] = s
	return c.intern(&Term{Op: "const", Name: name, Sort: s})
}

// Fresh returns a new declared symbol with a unique name derived from hint.
func (c *Ctx) Fresh(hint string, s *Sort) *Term {
	hint = sanitize(hint)
	c.fresh[hint]++
	return c.Const(fmt.Sprintf("%s!%d", hint, c.fresh[hint]), s)
}

func sanitize(s string) string {
	var sb strings.Builder
	for _, r := range s {
		if r >= 'a' && r <= 'z' || r >= 'A' && r <= 'Z' || r >= '0' && r <= '9' || r == '_' || r == '.' || r == '$' {
			sb.WriteRune(r)
		} else {
			sb.WriteByte('_')
		}
	}
	if sb.Len() == 0 {
		return "v"
	}
	return sb.String()
}

func (c *Ctx) Var(name string, s *Sort) *Term {
	return c.intern(&Term{Op: "var", Name: sanitize(name), Sort: s})
}

func (c *Ctx) DeclareFun(name string, params []*Sort, res *Sort) *FuncDecl {
	if f, ok := c.Funcs[name]; ok {
		return f
	}
	f := &FuncDecl{Name: name, Params: params, Result: res}
	c.Funcs[name] = f
	return f
}

func (c *Ctx) App(f *FuncDecl, args ...*Term) *Term {
	if len(args) != len(f.Params) {
		panic(fmt.Sprintf("arity mismatch for %s: %d vs %d", f.Name, len(args), len(f.Params)))
	}
	for i, a := range args {
		if f.Params[i].Kind == SInt && a.Op == "bvlit" {
			args[i] = c.litToInt(a)
			a = args[i]
		}
		if a.Sort != f.Params[i] {
			panic(fmt.Sprintf("sort mismatch for %s arg %d: %s vs %s", f.Name, i, a.Sort, f.Params[i]))
		}
	}
	return c.intern(&Term{Op: "app", Name: f.Name, Args: args, Sort: f.Result})
}

func (t *Term) IsLit() bool   { return t.Op == "bvlit" || t.Op == "intlit" }
func (t *Term) IsTrue() bool  { return t.Op == "true" }
func (t *Term) IsFalse() bool { return t.Op == "false" }

func (c *Ctx) mk(op string, s *Sort, args ...*Term) *Term {
	return c.intern(&Term{Op: op, Args: args, Sort: s})
}

// ---- booleans

func (c *Ctx) Not(a *Term) *Term {
	if a.IsTrue() {
		return c.False()
	}
	if a.IsFalse() {
		return c.True()
	}
	if a.Op == "not" {
		return a.Args[0]
	}
	return c.mk("not", BoolSort, a)
}

func (c *Ctx) And(as ...*Term) *Term {
	var out []*Term
	seen := map[int]bool{}
	for _, a := range as {
		if a.IsFalse() {
			return a
		}
		if a.IsTrue() {
			continue
		}
		if a.Op == "and" {
			for _, b := range a.Args {
				if !seen[b.ID] {
					seen[b.ID] = true
					out = append(out, b)
				}
			}
			continue
		}
		if !seen[a.ID] {
			seen[a.ID] = true
			out = append(out, a)
		}
	}
	for _, a := range out {
		if a.Op == "not" && seen[a.Args[0].ID] {
			return c.False()
		}
	}
	if len(out) == 0 {
		return c.True()
	}
	if len(out) == 1 {
		return out[0]
	}
	return c.mk("and", BoolSort, out...)
}

func (c *Ctx) Or(as ...*Term) *Term {
	var out []*Term
	seen := map[int]bool{}
	for _, a := range as {
		if a.IsTrue() {
			return a
		}
		if a.IsFalse() {
			continue
		}
		if a.Op == "or" {
			for _, b := range a.Args {
				if !seen[b.ID] {
					seen[b.ID] = true
					out = append(out, b)
				}
			}
			continue
		}
		if !seen[a.ID] {
			seen[a.ID] = true
			out = append(out, a)
		}
	}
	for _, a := range out {
		if a.Op == "not" && seen[a.Args[0].ID] {
			return c.True()
		}
	}
	if len(out) == 0 {
		return c.False()
	}
	if len(out) == 1 {
		return out[0]
	}
	// factor conjuncts common to every disjunct: (A&c) | (A&!c) = A & (c|!c) = A
	common := map[int]*Term{}
	for i, d := range out {
		cs := []*Term{d}
		if d.Op == "and" {
			cs = d.Args
		}
		if i == 0 {
			for _, x := range cs {
				common[x.ID] = x
			}
			continue
		}
		here := map[int]bool{}
		for _, x := range cs {
			here[x.ID] = true
		}
		for id := range common {
			if !here[id] {
				delete(common, id)
			}
		}
		if len(common) == 0 {
			break
		}
	}
	if len(common) > 0 {
		var rest []*Term
		for _, d := range out {
			cs := []*Term{d}
			if d.Op == "and" {
				cs = d.Args
			}
			var keep []*Term
			for _, x := range cs {
				if common[x.ID] == nil {
					keep = append(keep, x)
				}
			}
			rest = append(rest, c.And(keep...))
		}
		var cl []*Term
		// keep the original order of the first disjunct
		first := []*Term{out[0]}
		if out[0].Op == "and" {
			first = out[0].Args
		}
		for _, x := range first {
			if common[x.ID] != nil {
				cl = append(cl, x)
			}
		}
		cl = append(cl, c.Or(rest...))
		return c.And(cl...)
	}
	return c.mk("or", BoolSort, out...)
}

func (c *Ctx) Implies(a, b *Term) *Term {
	if a.IsTrue() {
		return b
	}
	if a.IsFalse() || b.IsTrue() {
		return c.True()
	}
	if b.IsFalse() {
		return c.Not(a)
	}
	return c.mk("=>", BoolSort, a, b)
}

func (c *Ctx) Ite(cond, a, b *Term) *Term {
	if cond.IsTrue() {
		return a
	}
	if cond.IsFalse() {
		return b
	}
	if a == b {
		return a
	}
	a, b = c.coerceIdx(a, b)
	if a.Sort != b.Sort {
		panic(fmt.Sprintf("ite sort mismatch %s vs %s", a.Sort, b.Sort))
	}
	if a.Sort == BoolSort {
		if a.IsTrue() && b.IsFalse() {
			return cond
		}
		if a.IsFalse() && b.IsTrue() {
			return c.Not(cond)
		}
		if a.IsTrue() {
			return c.Or(cond, b)
		}
		if b.IsFalse() {
			return c.And(cond, a)
		}
		if a.IsFalse() {
			return c.And(c.Not(cond), b)
		}
		if b.IsTrue() {
			return c.Or(c.Not(cond), a)
		}
	}
	// ite(c, x, ite(c, y, z)) = ite(c, x, z)
	if b.Op == "ite" && b.Args[0] == cond {
		return c.Ite(cond, a, b.Args[2])
	}
	if a.Op == "ite" && a.Args[0] == cond {
		return c.Ite(cond, a.Args[1], b)
	}
	return c.mk("ite", a.Sort, cond, a, b)
}

func (c *Ctx) Eq(a, b *Term) *Term {
	if a == b {
		return c.True()
	}
	a, b = c.coerceIdx(a, b)
	// tuples are equal componentwise; distinct string literals are distinct strings
	if (a.Op == "mktuple" && b.Op == "mktuple" && a.Sort == b.Sort) || (a.Op == "app" && b.Op == "app" && a.Name == b.Name && strings.HasPrefix(a.Name, "box$") && len(a.Args) == len(b.Args)) {
		parts := make([]*Term, len(a.Args))
		for i := range a.Args {
			parts[i] = c.Eq(a.Args[i], b.Args[i])
		}
		return c.And(parts...)
	}
	if a.Op == "app" && b.Op == "app" && len(a.Args) == 0 && len(b.Args) == 0 && strings.HasPrefix(a.Name, "str$") && strings.HasPrefix(b.Name, "str$") {
		return c.False() // a != b here: identical terms were handled above
	}
	// alloc0 >= 0 is a standing assumption: alloc0 + k (k > 0) is a fresh reference, never nil or negative
	if a.Sort.Kind == SInt {
		isFresh := func(t *Term) bool {
			return t.Op == "+" && t.Args[0].Op == "const" && t.Args[0].Name == "alloc0" && t.Args[1].IsLit() && t.Args[1].Val.Sign() > 0
		}
		if (isFresh(a) && b.IsLit() && b.Val.Sign() <= 0) || (isFresh(b) && a.IsLit() && a.Val.Sign() <= 0) {
			return c.False()
		}
	}
	if a.Sort != b.Sort {
		panic(fmt.Sprintf("eq sort mismatch %s vs %s (%s, %s)", a.Sort, b.Sort, c.Show(a), c.Show(b)))
	}
	if a.IsLit() && b.IsLit() {
		return c.Bool(a.Val.Cmp(b.Val) == 0)
	}
	if a.Sort == BoolSort {
		if a.IsTrue() {
			return b
		}
		if b.IsTrue() {
			return a
		}
		if a.IsFalse() {
			return c.Not(b)
		}
		if b.IsFalse() {
			return c.Not(a)
		}
	}
	if a.ID > b.ID {
		a, b = b, a
	}
	return c.mk("=", BoolSort, a, b)
}

func (c *Ctx) Distinct(a, b *Term) *Term { return c.Not(c.Eq(a, b)) }

// ---- bit-vectors

func mask(w int) *big.Int {
	m := new(big.Int).Lsh(big.NewInt(1), uint(w))
	return m.Sub(m, big.NewInt(1))
}

func signed(v *big.Int, w int) *big.Int {
	if v.Bit(w-1) == 1 {
		return new(big.Int).Sub(v, new(big.Int).Lsh(big.NewInt(1), uint(w)))
	}
	return new(big.Int).Set(v)
}

func (c *Ctx) BVBin(op string, a, b *Term) *Term {
	a, b = c.coerceIdx(a, b)
	if a.Sort.Kind == SInt && b.Sort.Kind == SInt {
		// index arithmetic in math-int mode
		switch op {
		case "bvadd":
			return c.IntBin("+", a, b)
		case "bvsub":
			return c.IntBin("-", a, b)
		case "bvmul":
			return c.IntBin("*", a, b)
		}
		panic("bit-vector operator " + op + " on mathematical integers")
	}
	if a.Sort != b.Sort || a.Sort.Kind != SBV {
		panic(fmt.Sprintf("%s sort mismatch %s vs %s", op, a.Sort, b.Sort))
	}
	w := a.Sort.W
	if a.IsLit() && b.IsLit() {
		x, y := a.Val, b.Val
		r := new(big.Int)
		ok := true
		switch op {
		case "bvadd":
			r.Add(x, y)
		case "bvsub":
			r.Sub(x, y)
		case "bvmul":
			r.Mul(x, y)
		case "bvand":
			r.And(x, y)
		case "bvor":
			r.Or(x, y)
		case "bvxor":
			r.Xor(x, y)
		case "bvshl":
			if y.Cmp(big.NewInt(int64(w))) >= 0 {
				r.SetInt64(0)
			} else {
				r.Lsh(x, uint(y.Uint64()))
			}
		case "bvlshr":
			if y.Cmp(big.NewInt(int64(w))) >= 0 {
				r.SetInt64(0)
			} else {
				r.Rsh(x, uint(y.Uint64()))
			}
		case "bvashr":
			sx := signed(x, w)
			if y.Cmp(big.NewInt(int64(w))) >= 0 {
				if sx.Sign() < 0 {
					r.SetInt64(-1)
				} else {
					r.SetInt64(0)
				}
			} else {
				r.Rsh(sx, uint(y.Uint64()))
			}
		case "bvudiv":
			if y.Sign() == 0 {
				ok = false
			} else {
				r.Div(x, y)
			}
		case "bvurem":
			if y.Sign() == 0 {
				ok = false
			} else {
				r.Mod(x, y)
			}
		case "bvsdiv":
			sx, sy := signed(x, w), signed(y, w)
			if sy.Sign() == 0 {
				ok = false
			} else {
				r.Quo(sx, sy)
			}
		case "bvsrem":
			sx, sy := signed(x, w), signed(y, w)
			if sy.Sign() == 0 {
				ok = false
			} else {
				r.Rem(sx, sy)
			}
		default:
			ok = false
		}
		if ok {
			return c.BVLit(r, w)
		}
	}
	zero := func(t *Term) bool { return t.IsLit() && t.Val.Sign() == 0 }
	switch op {
	case "bvadd", "bvor", "bvxor":
		if zero(a) {
			return b
		}
		if zero(b) {
			return a
		}
	case "bvsub", "bvshl", "bvlshr", "bvashr":
		if zero(b) {
			return a
		}
	case "bvand":
		if zero(a) {
			return a
		}
		if zero(b) {
			return b
		}
		if a.IsLit() && a.Val.Cmp(mask(w)) == 0 {
			return b
		}
		if b.IsLit() && b.Val.Cmp(mask(w)) == 0 {
			return a
		}
	case "bvmul":
		if a.IsLit() && a.Val.Cmp(big.NewInt(1)) == 0 {
			return b
		}
		if b.IsLit() && b.Val.Cmp(big.NewInt(1)) == 0 {
			return a
		}
	}
	// (x + c1) + c2 -> x + (c1+c2); keeps offsets readable and small
	if op == "bvadd" {
		if a.IsLit() {
			a, b = b, a
		}
		if b.IsLit() && a.Op == "bvadd" && a.Args[1].IsLit() {
			return c.BVBin("bvadd", a.Args[0], c.BVLit(new(big.Int).Add(a.Args[1].Val, b.Val), w))
		}
	}
	if op == "bvsub" && b.IsLit() {
		return c.BVBin("bvadd", a, c.BVLit(new(big.Int).Neg(b.Val), w))
	}
	if op == "bvsub" && a == b {
		return c.BVLit(big.NewInt(0), w)
	}
	return c.mk(op, a.Sort, a, b)
}

func (c *Ctx) BVCmp(op string, a, b *Term) *Term {
	a, b = c.coerceIdx(a, b)
	if a.Sort.Kind == SInt && b.Sort.Kind == SInt {
		switch op {
		case "bvslt":
			return c.IntCmp("<", a, b)
		case "bvsle":
			return c.IntCmp("<=", a, b)
		case "bvsgt":
			return c.IntCmp(">", a, b)
		case "bvsge":
			return c.IntCmp(">=", a, b)
		// unsigned comparisons are used for "0 <= a && a op b" on indices
		case "bvult":
			return c.And(c.IntCmp(">=", a, c.IntLit(0)), c.IntCmp("<", a, b))
		case "bvule":
			return c.And(c.IntCmp(">=", a, c.IntLit(0)), c.IntCmp("<=", a, b))
		case "bvugt":
			return c.And(c.IntCmp(">=", b, c.IntLit(0)), c.IntCmp(">", a, b))
		case "bvuge":
			return c.And(c.IntCmp(">=", b, c.IntLit(0)), c.IntCmp(">=", a, b))
		}
	}
	if a.Sort != b.Sort || a.Sort.Kind != SBV {
		panic(fmt.Sprintf("%s sort mismatch %s vs %s", op, a.Sort, b.Sort))
	}
	w := a.Sort.W
	if a.IsLit() && b.IsLit() {
		var r int
		switch op {
		case "bvult", "bvule", "bvugt", "bvuge":
			r = a.Val.Cmp(b.Val)
		default:
			r = signed(a.Val, w).Cmp(signed(b.Val, w))
		}
		switch op {
		case "bvult", "bvslt":
			return c.Bool(r < 0)
		case "bvule", "bvsle":
			return c.Bool(r <= 0)
		case "bvugt", "bvsgt":
			return c.Bool(r > 0)
		case "bvuge", "bvsge":
			return c.Bool(r >= 0)
		}
	}
	if a == b {
		switch op {
		case "bvult", "bvslt", "bvugt", "bvsgt":
			return c.False()
		default:
			return c.True()
		}
	}
	return c.mk(op, BoolSort, a, b)
}

func (c *Ctx) BVNot(a *Term) *Term {
	if a.IsLit() {
		return c.BVLit(new(big.Int).Xor(a.Val, mask(a.Sort.W)), a.Sort.W)
	}
	return c.mk("bvnot", a.Sort, a)
}

func (c *Ctx) BVNeg(a *Term) *Term {
	if a.IsLit() {
		return c.BVLit(new(big.Int).Neg(a.Val), a.Sort.W)
	}
	return c.mk("bvneg", a.Sort, a)
}

func (c *Ctx) Extract(hi, lo int, a *Term) *Term {
	if lo == 0 && hi == a.Sort.W-1 {
		return a
	}
	if a.IsLit() {
		v := new(big.Int).Rsh(a.Val, uint(lo))
		return c.BVLit(v, hi-lo+1)
	}
	// extract of zero/sign-extend or concat low part
	if (a.Op == "zext" || a.Op == "sext") && hi < a.Args[0].Sort.W {
		return c.Extract(hi, lo, a.Args[0])
	}
	return c.intern(&Term{Op: "extract", Name: fmt.Sprintf("%d %d", hi, lo), Args: []*Term{a}, Sort: BV(hi - lo + 1)})
}

func (c *Ctx) ZExt(a *Term, w int) *Term {
	if a.Sort.W == w {
		return a
	}
	if a.IsLit() {
		return c.BVLit(a.Val, w)
	}
	return c.intern(&Term{Op: "zext", Name: fmt.Sprint(w - a.Sort.W), Args: []*Term{a}, Sort: BV(w)})
}

func (c *Ctx) SExt(a *Term, w int) *Term {
	if a.Sort.W == w {
		return a
	}
	if a.IsLit() {
		return c.BVLit(signed(a.Val, a.Sort.W), w)
	}
	return c.intern(&Term{Op: "sext", Name: fmt.Sprint(w - a.Sort.W), Args: []*Term{a}, Sort: BV(w)})
}

// Resize converts a bit-vector to width w with Go conversion semantics.
func (c *Ctx) Resize(a *Term, w int, srcSigned bool) *Term {
	if a.Sort.W == w {
		return a
	}
	if a.Sort.W > w {
		return c.Extract(w-1, 0, a)
	}
	if srcSigned {
		return c.SExt(a, w)
	}
	return c.ZExt(a, w)
}

// ---- integers (used for references / allocation counter only)

func (c *Ctx) IntBin(op string, a, b *Term) *Term {
	if a.IsLit() && b.IsLit() {
		r := new(big.Int)
		switch op {
		case "+":
			r.Add(a.Val, b.Val)
		case "-":
			r.Sub(a.Val, b.Val)
		case "*":
			r.Mul(a.Val, b.Val)
		}
		return c.intern(&Term{Op: "intlit", Val: r, Sort: IntSort})
	}
	zero := func(t *Term) bool { return t.IsLit() && t.Val.Sign() == 0 }
	one := func(t *Term) bool { return t.IsLit() && t.Val.Cmp(big.NewInt(1)) == 0 }
	switch op {
	case "+":
		if zero(a) {
			return b
		}
		if zero(b) {
			return a
		}
		if a.IsLit() {
			a, b = b, a
		}
		// (x + c1) + c2 -> x + (c1+c2)
		if b.IsLit() && a.Op == "+" && a.Args[1].IsLit() {
			return c.IntBin("+", a.Args[0], c.intern(&Term{Op: "intlit", Val: new(big.Int).Add(a.Args[1].Val, b.Val), Sort: IntSort}))
		}
	case "-":
		if zero(b) {
			return a
		}
		if a == b {
			return c.IntLit(0)
		}
		if b.IsLit() {
			return c.IntBin("+", a, c.intern(&Term{Op: "intlit", Val: new(big.Int).Neg(b.Val), Sort: IntSort}))
		}
		// (x + c) - x -> c
		if a.Op == "+" && a.Args[0] == b {
			return a.Args[1]
		}
	case "*":
		if one(a) {
			return b
		}
		if one(b) {
			return a
		}
		if zero(a) || zero(b) {
			return c.IntLit(0)
		}
	}
	return c.mk(op, IntSort, a, b)
}

// litToInt converts a bit-vector literal to the Int literal of its signed value.
func (c *Ctx) litToInt(t *Term) *Term {
	return c.intern(&Term{Op: "intlit", Val: signed(t.Val, t.Sort.W), Sort: IntSort})
}

// coerceIdx lets index arithmetic written with 64-bit literals work when the
// other operand is a mathematical integer (math-int mode).
func (c *Ctx) coerceIdx(a, b *Term) (*Term, *Term) {
	if a.Sort.Kind == SInt && b.Sort.Kind == SBV && b.Op == "bvlit" {
		return a, c.litToInt(b)
	}
	if b.Sort.Kind == SInt && a.Sort.Kind == SBV && a.Op == "bvlit" {
		return c.litToInt(a), b
	}
	return a, b
}

func (c *Ctx) IntCmp(op string, a, b *Term) *Term {
	if a.IsLit() && b.IsLit() {
		r := a.Val.Cmp(b.Val)
		switch op {
		case "<":
			return c.Bool(r < 0)
		case "<=":
			return c.Bool(r <= 0)
		case ">":
			return c.Bool(r > 0)
		case ">=":
			return c.Bool(r >= 0)
		}
	}
	if a == b {
		return c.Bool(op == "<=" || op == ">=")
	}
	return c.mk(op, BoolSort, a, b)
}

// ---- arrays

func (c *Ctx) Select(a, i *Term) *Term {
	if c.selCache == nil {
		c.selCache = map[[2]int]*Term{}
	}
	key := [2]int{a.ID, i.ID}
	if r, ok := c.selCache[key]; ok {
		return r
	}
	r := c.selectUncached(a, i)
	c.selCache[key] = r
	return r
}

func (c *Ctx) selectUncached(a, i *Term) *Term {
	if a.Sort.Kind != SArray {
		panic("select on non-array " + a.Sort.String())
	}
	if a.Sort.Idx.Kind == SInt && i.Op == "bvlit" {
		i = c.litToInt(i)
	}
	if i.Sort != a.Sort.Idx {
		panic(fmt.Sprintf("select index sort %s vs %s", i.Sort, a.Sort.Idx))
	}
	// read-over-write with syntactically decidable indices
	for a.Op == "store" {
		j := a.Args[1]
		if j == i {
			return a.Args[2]
		}
		if c.definitelyDistinct(i, j) {
			a = a.Args[0]
			continue
		}
		break
	}
	if a.Op == "constarr" {
		return a.Args[0]
	}
	// Eager read-over-write: reads are pushed down to the base arrays so that the terms
	// E-matching needs (select base idx) exist syntactically instead of appearing only
	// inside the solver's array theory.
	if a.Op == "store" {
		return c.Ite(c.Eq(a.Args[1], i), a.Args[2], c.Select(a.Args[0], i))
	}
	if a.Op == "ite" {
		return c.Ite(a.Args[0], c.Select(a.Args[1], i), c.Select(a.Args[2], i))
	}
	return c.mk("select", a.Sort.Elem, a, i)
}

func (c *Ctx) definitelyDistinct(i, j *Term) bool {
	if i.IsLit() && j.IsLit() {
		return i.Val.Cmp(j.Val) != 0
	}
	// x + c1 vs x + c2, x vs x + c
	if i.Sort.Kind == SBV || i.Sort.Kind == SInt {
		bi, ci := splitOffset(i)
		bj, cj := splitOffset(j)
		if bi == bj && ci.Cmp(cj) != 0 {
			return true
		}
	}
	return false
}

func splitOffset(t *Term) (*Term, *big.Int) {
	if t.Op == "+" && t.Args[1].IsLit() {
		return t.Args[0], t.Args[1].Val
	}
	if t.Op == "bvadd" && t.Args[1].IsLit() {
		return t.Args[0], t.Args[1].Val
	}
	if t.IsLit() {
		return nil, t.Val
	}
	return t, big.NewInt(0)
}

func (c *Ctx) Store(a, i, v *Term) *Term {
	if a.Sort.Kind == SArray && a.Sort.Idx.Kind == SInt && i.Op == "bvlit" {
		i = c.litToInt(i)
	}
	if a.Sort.Kind == SArray && a.Sort.Elem.Kind == SInt && v.Op == "bvlit" {
		v = c.litToInt(v)
	}
	if a.Sort.Kind != SArray || i.Sort != a.Sort.Idx || v.Sort != a.Sort.Elem {
		panic(fmt.Sprintf("store sort mismatch: %s [%s] := %s", a.Sort, i.Sort, v.Sort))
	}
	if a.Op == "store" && a.Args[1] == i {
		a = a.Args[0]
	}
	return c.mk("store", a.Sort, a, i, v)
}

func (c *Ctx) ConstArray(s *Sort, v *Term) *Term {
	return c.intern(&Term{Op: "constarr", Args: []*Term{v}, Sort: s})
}

// ---- quantifiers

func (c *Ctx) Forall(vars []*Term, body *Term, pats ...*Term) *Term {
	if body.IsTrue() {
		return body
	}
	return c.intern(&Term{Op: "forall", Args: []*Term{body}, Vars: vars, Pats: pats, Sort: BoolSort})
}

func (c *Ctx) Exists(vars []*Term, body *Term, pats ...*Term) *Term {
	if body.IsFalse() {
		return body
	}
	return c.intern(&Term{Op: "exists", Args: []*Term{body}, Vars: vars, Pats: pats, Sort: BoolSort})
}

// Subst replaces terms (by identity) throughout t.
func (c *Ctx) Subst(t *Term, m map[*Term]*Term) *Term {
	memo := map[*Term]*Term{}
	var rec func(t *Term) *Term
	rec = func(t *Term) *Term {
		if r, ok := m[t]; ok {
			return r
		}
		if r, ok := memo[t]; ok {
			return r
		}
		if len(t.Args) == 0 {
			return t
		}
		args := make([]*Term, len(t.Args))
		changed := false
		for i, a := range t.Args {
			args[i] = rec(a)
			if args[i] != a {
				changed = true
			}
		}
		var r *Term
		if !changed {
			r = t
		} else {
			r = c.rebuild(t, args)
		}
		memo[t] = r
		return r
	}
	return rec(t)
}

func (c *Ctx) rebuild(t *Term, args []*Term) *Term {
	switch t.Op {
	case "not":
		return c.Not(args[0])
	case "and":
		return c.And(args...)
	case "or":
		return c.Or(args...)
	case "=>":
		return c.Implies(args[0], args[1])
	case "ite":
		return c.Ite(args[0], args[1], args[2])
	case "=":
		return c.Eq(args[0], args[1])
	case "select":
		return c.Select(args[0], args[1])
	case "store":
		return c.Store(args[0], args[1], args[2])
	case "bvadd", "bvsub", "bvmul", "bvand", "bvor", "bvxor", "bvshl", "bvlshr", "bvashr", "bvudiv", "bvurem", "bvsdiv", "bvsrem":
		return c.BVBin(t.Op, args[0], args[1])
	case "bvult", "bvule", "bvugt", "bvuge", "bvslt", "bvsle", "bvsgt", "bvsge":
		return c.BVCmp(t.Op, args[0], args[1])
	case "bvnot":
		return c.BVNot(args[0])
	case "bvneg":
		return c.BVNeg(args[0])
	case "zext":
		return c.ZExt(args[0], t.Sort.W)
	case "sext":
		return c.SExt(args[0], t.Sort.W)
	case "extract":
		var hi, lo int
		fmt.Sscanf(t.Name, "%d %d", &hi, &lo)
		return c.Extract(hi, lo, args[0])
	case "forall", "exists":
		pats := make([]*Term, len(t.Pats))
		copy(pats, t.Pats)
		return c.intern(&Term{Op: t.Op, Args: args, Vars: t.Vars, Pats: pats, Sort: BoolSort})
	case "+", "-", "*":
		return c.IntBin(t.Op, args[0], args[1])
	case "<", "<=", ">", ">=":
		return c.IntCmp(t.Op, args[0], args[1])
	}
	return c.intern(&Term{Op: t.Op, Name: t.Name, Args: args, Sort: t.Sort, Val: t.Val})
}

// ---------------------------------------------------------------- printing

func smtSym(s string) string {
	if strings.ContainsAny(s, "|\\") {
		s = strings.NewReplacer("|", "!!", "\\", "!!").Replace(s)
	}
	for _, r := range s {
		if !(r >= 'a' && r <= 'z' || r >= 'A' && r <= 'Z' || r >= '0' && r <= '9' || r == '_' || r == '.' || r == '$' || r == '!') {
			return "|" + s + "|"
		}
	}
	return s
}

type printer struct {
	c       *Ctx
	sb      strings.Builder
	refs    map[int]int
	named   map[int]string
	defs    []string
	consts  map[string]*Sort
	funcs   map[string]bool
	funcOrd []string
	sorts   map[string]bool
	datas   map[string]*Sort
	lets    map[int]string // let-bound shared subterms inside the quantifier / definition being printed
	cache   map[int]string // rendering of closed terms that were not hoisted
}

// Script renders an SMT-LIB script asserting every term in asserts.
func (c *Ctx) Script(logic string, asserts []*Term, getModelFor []*Term) string {
	p := &printer{c: c, refs: map[int]int{}, named: map[int]string{}, consts: map[string]*Sort{}, funcs: map[string]bool{}, sorts: map[string]bool{}}
	// Close over axioms of used function symbols.
	all := append([]*Term{}, asserts...)
	seenAx := map[*Term]bool{}
	for changed := true; changed; {
		changed = false
		used := map[string]bool{}
		vis := map[int]bool{}
		for _, a := range all {
			p.collectFuncs(a, used, vis)
		}
		// definitions' bodies too
		for f := range used {
			if d := c.Funcs[f]; d != nil && d.DefBody != nil {
				p.collectFuncs(d.DefBody, used, vis)
			}
		}
		names := make([]string, 0, len(used))
		for f := range used {
			names = append(names, f)
		}
		sort.Strings(names)
		for _, f := range names {
			for _, ax := range c.Axioms[f] {
				if c.SkipQuantAxioms && hasQuant(ax) {
					continue
				}
				if !seenAx[ax] {
					seenAx[ax] = true
					all = append(all, ax)
					changed = true
				}
			}
		}
	}
	for _, a := range all {
		p.count(a)
	}
	for _, a := range getModelFor {
		p.count(a)
	}
	var body strings.Builder
	// function definitions first need their symbols collected
	var asserted []string
	for _, a := range all {
		asserted = append(asserted, p.top(a))
	}
	var gm []string
	for _, a := range getModelFor {
		gm = append(gm, p.top(a))
	}
	var out strings.Builder
	if logic != "" {
		fmt.Fprintf(&out, "(set-logic %s)\n", logic)
	}
	sn := make([]string, 0, len(p.sorts))
	for s := range p.sorts {
		sn = append(sn, s)
	}
	sort.Strings(sn)
	for _, s := range sn {
		fmt.Fprintf(&out, "(declare-sort %s 0)\n", s)
	}
	dn := make([]string, 0, len(p.datas))
	for n := range p.datas {
		dn = append(dn, n)
	}
	sort.Strings(dn)
	for _, n := range dn {
		d := p.datas[n]
		fs := make([]string, len(d.Fields))
		for i, f := range d.Fields {
			fs[i] = fmt.Sprintf("(%s$f%d %s)", n, i, f)
		}
		fmt.Fprintf(&out, "(declare-datatypes ((%s 0)) (((mk$%s %s))))\n", smtSym(n), n, strings.Join(fs, " "))
	}
	cn := make([]string, 0, len(p.consts))
	for k := range p.consts {
		cn = append(cn, k)
	}
	sort.Strings(cn)
	for _, k := range cn {
		fmt.Fprintf(&out, "(declare-fun %s () %s)\n", smtSym(k), p.consts[k])
	}
	// functions: declared (uninterpreted) first, then defined in dependency order (recursive ones via define-fun-rec)
	for _, f := range p.funcOrd {
		d := c.Funcs[f]
		if d.DefBody == nil {
			ps := make([]string, len(d.Params))
			for i, s := range d.Params {
				ps[i] = s.String()
			}
			fmt.Fprintf(&out, "(declare-fun %s (%s) %s)\n", smtSym(f), strings.Join(ps, " "), d.Result)
		}
	}
	for _, f := range p.funcOrd {
		d := c.Funcs[f]
		if d.DefBody != nil {
			vs := make([]string, len(d.DefVars))
			for i, v := range d.DefVars {
				vs[i] = fmt.Sprintf("(%s %s)", smtSym(v.Name), v.Sort)
			}
			kw := "define-fun"
			if d.Rec {
				kw = "define-fun-rec"
			}
			fmt.Fprintf(&out, "(%s %s (%s) %s %s)\n", kw, smtSym(f), strings.Join(vs, " "), d.Result, p.inline(d.DefBody))
		}
	}
	for _, d := range p.defs {
		out.WriteString(d)
	}
	for _, a := range asserted {
		fmt.Fprintf(&body, "(assert %s)\n", a)
	}
	out.WriteString(body.String())
	out.WriteString("(check-sat)\n")
	if len(gm) > 0 {
		fmt.Fprintf(&out, "(get-value (%s))\n", strings.Join(gm, " "))
	}
	return out.String()
}

func (p *printer) collectFuncs(t *Term, used map[string]bool, vis map[int]bool) {
	if vis[t.ID] {
		return
	}
	vis[t.ID] = true
	if t.Op == "app" {
		if !used[t.Name] {
			used[t.Name] = true
			if d := p.c.Funcs[t.Name]; d != nil && d.DefBody != nil {
				p.collectFuncs(d.DefBody, used, vis)
			}
		}
	}
	for _, a := range t.Args {
		p.collectFuncs(a, used, vis)
	}
	for _, a := range t.Pats {
		p.collectFuncs(a, used, vis)
	}
}

func (p *printer) noteSort(s *Sort) {
	switch s.Kind {
	case SUninterp:
		p.sorts[s.Name] = true
	case SData:
		if p.datas == nil {
			p.datas = map[string]*Sort{}
		}
		p.datas[s.Name] = s
		for _, f := range s.Fields {
			p.noteSort(f)
		}
	case SArray:
		p.noteSort(s.Idx)
		p.noteSort(s.Elem)
	}
}

func (p *printer) count(t *Term) {
	p.refs[t.ID]++
	if p.refs[t.ID] > 1 {
		return
	}
	p.noteSort(t.Sort)
	if t.Op == "const" {
		p.consts[t.Name] = t.Sort
	}
	if t.Op == "app" {
		p.noteFunc(t.Name)
	}
	for _, a := range t.Args {
		p.count(a)
	}
	for _, a := range t.Pats {
		p.count(a)
	}
	for _, v := range t.Vars {
		p.noteSort(v.Sort)
	}
}

func (p *printer) noteFunc(name string) {
	if p.funcs[name] {
		return
	}
	p.funcs[name] = true
	d := p.c.Funcs[name]
	if d == nil {
		panic("undeclared function " + name)
	}
	for _, s := range d.Params {
		p.noteSort(s)
	}
	p.noteSort(d.Result)
	if d.DefBody != nil {
		// dependencies first (self-reference is fine: already marked)
		p.depFuncs(d.DefBody, map[int]bool{})
	}
	p.funcOrd = append(p.funcOrd, name)
}

func (p *printer) depFuncs(t *Term, vis map[int]bool) {
	if vis[t.ID] {
		return
	}
	vis[t.ID] = true
	p.noteSort(t.Sort)
	if t.Op == "const" {
		p.consts[t.Name] = t.Sort
	}
	if t.Op == "app" {
		p.noteFunc(t.Name)
	}
	for _, a := range t.Args {
		p.depFuncs(a, vis)
	}
}

// top prints a term, hoisting shared closed subterms into define-funs.
func (p *printer) top(t *Term) string {
	return p.emit(t)
}

func (p *printer) emit(t *Term) string {
	if n, ok := p.named[t.ID]; ok {
		return n
	}
	if n, ok := p.lets[t.ID]; ok {
		return n
	}
	if !t.Bound {
		if s, ok := p.cache[t.ID]; ok {
			return s
		}
	}
	s := p.render(t, p.emit)
	if !t.Bound {
		if p.cache == nil {
			p.cache = map[int]string{}
		}
		defer func() {
			if _, named := p.named[t.ID]; !named {
				p.cache[t.ID] = s
			}
		}()
	}
	if !t.Bound && len(t.Args) > 0 && p.refs[t.ID] > 1 && len(s) > 24 {
		n := fmt.Sprintf("$t%d", t.ID)
		p.defs = append(p.defs, fmt.Sprintf("(define-fun %s () %s %s)\n", n, t.Sort, s))
		p.named[t.ID] = n
		return n
	}
	return s
}

// inline prints without hoisting (function bodies).
func (p *printer) inline(t *Term) string {
	var rec func(t *Term) string
	rec = func(t *Term) string {
		if n, ok := p.lets[t.ID]; ok {
			return n
		}
		return p.render(t, rec)
	}
	shared := sharedBound(t)
	if len(shared) == 0 {
		return rec(t)
	}
	return p.withLets(shared, rec, func() string { return rec(t) })
}

// sharedBound lists (children before parents) the subterms of body that contain bound
// variables, are referenced more than once and are not inside a nested quantifier.
func sharedBound(body *Term) []*Term {
	refs := map[int]int{}
	byID := map[int]*Term{}
	var walk func(t *Term)
	walk = func(t *Term) {
		if !t.Bound || len(t.Args) == 0 {
			return
		}
		refs[t.ID]++
		if refs[t.ID] > 1 {
			return
		}
		byID[t.ID] = t
		if t.Op == "forall" || t.Op == "exists" {
			return
		}
		for _, a := range t.Args {
			walk(a)
		}
	}
	walk(body)
	var ids []int
	for id, n := range refs {
		if n > 1 && byID[id].Op != "forall" && byID[id].Op != "exists" {
			ids = append(ids, id)
		}
	}
	sort.Ints(ids)
	out := make([]*Term, len(ids))
	for i, id := range ids {
		out[i] = byID[id]
	}
	return out
}

// withLets renders body() under nested let-bindings for the shared subterms.
func (p *printer) withLets(shared []*Term, sub func(*Term) string, body func() string) string {
	saved := p.lets
	p.lets = map[int]string{}
	for k, v := range saved {
		p.lets[k] = v
	}
	type bind struct{ name, def string }
	var binds []bind
	for _, s := range shared {
		def := p.render(s, sub)
		name := fmt.Sprintf("l%d", s.ID)
		binds = append(binds, bind{name, def})
		p.lets[s.ID] = name
	}
	out := body()
	for i := len(binds) - 1; i >= 0; i-- {
		out = fmt.Sprintf("(let ((%s %s)) %s)", binds[i].name, binds[i].def, out)
	}
	p.lets = saved
	return out
}

func (p *printer) render(t *Term, sub func(*Term) string) string {
	switch t.Op {
	case "true", "false":
		return t.Op
	case "bvlit":
		w := t.Sort.W
		if w%4 == 0 {
			return fmt.Sprintf("#x%0*s", w/4, t.Val.Text(16))
		}
		return fmt.Sprintf("(_ bv%s %d)", t.Val.String(), w)
	case "intlit":
		if t.Val.Sign() < 0 {
			return fmt.Sprintf("(- %s)", new(big.Int).Neg(t.Val).String())
		}
		return t.Val.String()
	case "const", "var":
		return smtSym(t.Name)
	case "app":
		if len(t.Args) == 0 {
			return smtSym(t.Name)
		}
		parts := make([]string, len(t.Args))
		for i, a := range t.Args {
			parts[i] = sub(a)
		}
		return "(" + smtSym(t.Name) + " " + strings.Join(parts, " ") + ")"
	case "extract":
		return fmt.Sprintf("((_ extract %s) %s)", t.Name, sub(t.Args[0]))
	case "zext":
		return fmt.Sprintf("((_ zero_extend %s) %s)", t.Name, sub(t.Args[0]))
	case "sext":
		return fmt.Sprintf("((_ sign_extend %s) %s)", t.Name, sub(t.Args[0]))
	case "constarr":
		return fmt.Sprintf("((as const %s) %s)", t.Sort, sub(t.Args[0]))
	case "mktuple":
		parts := make([]string, len(t.Args))
		for i, a := range t.Args {
			parts[i] = sub(a)
		}
		return "(mk$" + t.Name + " " + strings.Join(parts, " ") + ")"
	case "int2bv":
		return fmt.Sprintf("((_ int2bv %s) %s)", t.Name, sub(t.Args[0]))
	case "sbv2int":
		a := sub(t.Args[0])
		w := t.Args[0].Sort.W
		return fmt.Sprintf("(ite (bvslt %s %s) (- (bv2nat %s) %s) (bv2nat %s))", a, p.render(p.c.BVI(0, w), sub), a, pow2(uint(w)).String(), a)
	case "forall", "exists":
		vs := make([]string, len(t.Vars))
		for i, v := range t.Vars {
			vs[i] = fmt.Sprintf("(%s %s)", smtSym(v.Name), v.Sort)
		}
		var body string
		if shared := sharedBound(t.Args[0]); len(shared) > 0 {
			body = p.withLets(shared, sub, func() string { return sub(t.Args[0]) })
		} else {
			body = sub(t.Args[0])
		}
		if len(t.Pats) > 0 {
			ps := make([]string, len(t.Pats))
			for i, pt := range t.Pats {
				ps[i] = "(" + sub(pt) + ")"
			}
			if t.Name == "multi" {
				// one multi-pattern: all terms must match
				for i, pt := range t.Pats {
					ps[i] = sub(pt)
				}
				body = fmt.Sprintf("(! %s :pattern (%s) :qid q%d)", body, strings.Join(ps, " "), t.ID)
			} else {
				body = fmt.Sprintf("(! %s :pattern %s :qid q%d)", body, strings.Join(ps, " :pattern "), t.ID)
			}
		} else {
			body = fmt.Sprintf("(! %s :qid q%d)", body, t.ID)
		}
		return fmt.Sprintf("(%s (%s) %s)", t.Op, strings.Join(vs, " "), body)
	}
	parts := make([]string, len(t.Args))
	for i, a := range t.Args {
		parts[i] = sub(a)
	}
	return "(" + t.Op + " " + strings.Join(parts, " ") + ")"
}

// Show renders a term for humans (truncated).
func (c *Ctx) Show(t *Term) string {
	p := &printer{c: c, refs: map[int]int{}, named: map[int]string{}, consts: map[string]*Sort{}, funcs: map[string]bool{}, sorts: map[string]bool{}}
	s := p.inline(t)
	if len(s) > 400 {
		s = s[:400] + "…"
	}
	return s
}

// Size returns the DAG node count.
func (t *Term) Size() int {
	seen := map[int]bool{}
	var rec func(t *Term)
	rec = func(t *Term) {
		if seen[t.ID] {
			return
		}
		seen[t.ID] = true
		for _, a := range t.Args {
			rec(a)
		}
	}
	rec(t)
	return len(seen)
}

func hasQuant(t *Term) bool {
	seen := map[int]bool{}
	var rec func(t *Term) bool
	rec = func(t *Term) bool {
		if seen[t.ID] {
			return false
		}
		seen[t.ID] = true
		if t.Op == "forall" || t.Op == "exists" {
			return true
		}
		for _, a := range t.Args {
			if rec(a) {
				return true
			}
		}
		return false
	}
	return rec(t)
}

// StripQuant removes top-level conjuncts that contain quantifiers.
func (c *Ctx) StripQuant(t *Term) *Term {
	if t.Op != "and" {
		if hasQuant(t) {
			return c.True()
		}
		return t
	}
	var keep []*Term
	for _, a := range t.Args {
		if !hasQuant(a) {
			keep = append(keep, a)
		}
	}
	return c.And(keep...)
}
