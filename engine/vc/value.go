package vc

import (
	"regexp"
	"fmt"
	"go/types"
	"strings"

	"golang.org/x/tools/go/ssa"
)

// Sorts used for Go values.
var (
	RefSort = IntSort          // object references, slice bases, map references, type tags
	IdxSort = BV(64)           // int, len, cap, indices
	StrSort = Uninterp("Str")  // Go strings (uninterpreted, with len/at functions)
	F64Sort = Uninterp("F64")  // Go floats (uninterpreted)
	FnSort  = IntSort          // function values stored in the heap (opaque ids)
)

type PtrKind int

const (
	PObj  PtrKind = iota // L[0] is an object reference; location = leaves [Off, Off+n) of the Root object
	PElem                // L[0] is a slice base; location = element Idx of backing array of Root elements, leaves from Off
	PArr                 // L[0] is a slice base; pointer to a whole array [N]Root (new [N]T)
)

type PtrInfo struct {
	Kind PtrKind
	Root types.Type // container type: struct (or pointee) type for PObj, element type for PElem/PArr
	Off  int        // leaf offset inside the container
	Idx  *Term      // element index (PElem), already including the slice offset
	N    int64      // array length (PArr)
}

// Closure is a statically known function value.
type Closure struct {
	Fn       *ssa.Function
	Bindings []Value
	Recv     *Value // bound method receiver
}

// Value is a symbolic Go value: a Go type plus its flattened SMT leaves.
type Value struct {
	T     types.Type
	L     []*Term
	P     *PtrInfo // static location info for pointers (nil: whole object of the pointee type)
	F     *Closure
	Tuple []Value
}

// LeafInfo describes one leaf of a flattened type.
type LeafInfo struct {
	Sort   *Sort
	Path   string
	T      types.Type // Go type of the leaf's owner basic/ref type
	Signed bool
	Role   string // "", "base","off","len","cap" for slices; "tag","pay" for interfaces; "ref"
}

type Layout struct {
	Leaves []LeafInfo
}

var layoutCache = map[string]*Layout{}

// typeKey names a type. The alias any and interface{} are one type and get one name
// (heap components are keyed by it: a []any written as []interface{} is the same memory).
func typeKey(t types.Type) string {
	s := types.TypeString(types.Unalias(t), func(p *types.Package) string { return p.Path() })
	if strings.Contains(s, "any") {
		s = anyWord.ReplaceAllString(s, "${1}interface{}")
	}
	return s
}

var anyWord = regexp.MustCompile(`(^|[^A-Za-z0-9_./])any\b`)

const maxArrayLeaves = 64

// LayoutOf computes the flattening of a Go type.
func LayoutOf(t types.Type) *Layout {
	k := typeKey(t)
	if l, ok := layoutCache[k]; ok {
		return l
	}
	l := &Layout{}
	layoutCache[k] = l
	build(t, "", l)
	return l
}

func build(t types.Type, path string, l *Layout) {
	switch u := t.Underlying().(type) {
	case *types.Basic:
		info := u.Info()
		switch {
		case info&types.IsBoolean != 0:
			l.Leaves = append(l.Leaves, LeafInfo{Sort: BoolSort, Path: path, T: t})
		case info&types.IsInteger != 0 && isMathInt(t):
			l.Leaves = append(l.Leaves, LeafInfo{Sort: IntSort, Path: path, T: t, Signed: true})
		case info&types.IsInteger != 0:
			l.Leaves = append(l.Leaves, LeafInfo{Sort: BV(intWidth(u)), Path: path, T: t, Signed: info&types.IsUnsigned == 0})
		case info&types.IsFloat != 0:
			l.Leaves = append(l.Leaves, LeafInfo{Sort: F64Sort, Path: path, T: t})
		case info&types.IsString != 0:
			l.Leaves = append(l.Leaves, LeafInfo{Sort: StrSort, Path: path, T: t})
		case u.Kind() == types.UnsafePointer:
			l.Leaves = append(l.Leaves, LeafInfo{Sort: RefSort, Path: path, T: t, Role: "ref"})
		case u.Kind() == types.UntypedNil:
			l.Leaves = append(l.Leaves, LeafInfo{Sort: RefSort, Path: path, T: t, Role: "ref"})
		default:
			panic(unsupported("basic type " + t.String()))
		}
	case *types.Pointer, *types.Map, *types.Chan:
		l.Leaves = append(l.Leaves, LeafInfo{Sort: RefSort, Path: path, T: t, Role: "ref"})
	case *types.Signature:
		l.Leaves = append(l.Leaves, LeafInfo{Sort: FnSort, Path: path, T: t, Role: "fn"})
	case *types.Slice:
		l.Leaves = append(l.Leaves,
			LeafInfo{Sort: RefSort, Path: path + "#base", T: t, Role: "base"},
			LeafInfo{Sort: IdxSort, Path: path + "#off", T: t, Role: "off"},
			LeafInfo{Sort: IdxSort, Path: path + "#len", T: t, Role: "len"},
			LeafInfo{Sort: IdxSort, Path: path + "#cap", T: t, Role: "cap"})
	case *types.Interface:
		l.Leaves = append(l.Leaves,
			LeafInfo{Sort: RefSort, Path: path + "#tag", T: t, Role: "tag"},
			LeafInfo{Sort: RefSort, Path: path + "#pay", T: t, Role: "pay"})
	case *types.Struct:
		for i := 0; i < u.NumFields(); i++ {
			build(u.Field(i).Type(), path+"."+u.Field(i).Name(), l)
		}
	case *types.Array:
		n := u.Len()
		sub := LayoutOf(u.Elem())
		if n*int64(len(sub.Leaves)) > maxArrayLeaves {
			panic(unsupported(fmt.Sprintf("array value too large: %s", t)))
		}
		for i := int64(0); i < n; i++ {
			build(u.Elem(), fmt.Sprintf("%s[%d]", path, i), l)
		}
	case *types.Tuple:
		for i := 0; i < u.Len(); i++ {
			build(u.At(i).Type(), fmt.Sprintf("%s#%d", path, i), l)
		}
	default:
		panic(unsupported("type " + t.String()))
	}
}

func intWidth(b *types.Basic) int {
	switch b.Kind() {
	case types.Int8, types.Uint8:
		return 8
	case types.Int16, types.Uint16:
		return 16
	case types.Int32, types.Uint32:
		return 32
	case types.UntypedRune:
		return 32
	default:
		return 64
	}
}

func isSigned(t types.Type) bool {
	b, ok := t.Underlying().(*types.Basic)
	return ok && b.Info()&types.IsInteger != 0 && b.Info()&types.IsUnsigned == 0
}

func isInteger(t types.Type) bool {
	b, ok := t.Underlying().(*types.Basic)
	return ok && b.Info()&types.IsInteger != 0
}

func isFloat(t types.Type) bool {
	b, ok := t.Underlying().(*types.Basic)
	return ok && b.Info()&types.IsFloat != 0
}

func isString(t types.Type) bool {
	b, ok := t.Underlying().(*types.Basic)
	return ok && b.Info()&types.IsString != 0
}

func isBool(t types.Type) bool {
	b, ok := t.Underlying().(*types.Basic)
	return ok && b.Info()&types.IsBoolean != 0
}

// fieldOffset returns the leaf offset and leaf count of field i of struct type t.
func fieldOffset(t types.Type, i int) (int, int) {
	st := t.Underlying().(*types.Struct)
	off := 0
	for j := 0; j < i; j++ {
		off += len(LayoutOf(st.Field(j).Type()).Leaves)
	}
	return off, len(LayoutOf(st.Field(i).Type()).Leaves)
}

type Unsupported struct{ Msg string }

func (u Unsupported) Error() string { return "outside subset: " + u.Msg }
func unsupported(msg string) Unsupported { return Unsupported{Msg: msg} }

// ---------------------------------------------------------------- heap

// Heap maps component names to array terms. Components are created lazily
// with an initial symbolic array named after the component.
type Heap struct {
	comps map[string]*Term
	// Path mode: maps all of whose entries are known on this path (created by make on the
	// path, updated with literal keys only), by the ID of their reference term, with the keys
	// in insertion order; and the state of the iterations over such maps (by iterator number).
	mapKeys  map[int][]Value
	iterKeys map[int][]Value
	iterPos  map[int]int
	iterMap  map[int]Value
}

func (h *Heap) clone() *Heap {
	n := &Heap{comps: make(map[string]*Term, len(h.comps))}
	for k, v := range h.comps {
		n.comps[k] = v
	}
	if len(h.mapKeys) > 0 {
		n.mapKeys = make(map[int][]Value, len(h.mapKeys))
		for k, v := range h.mapKeys {
			n.mapKeys[k] = v // slices are never modified in place (see trackMapKey)
		}
	}
	if len(h.iterKeys) > 0 {
		n.iterKeys = make(map[int][]Value, len(h.iterKeys))
		n.iterPos = make(map[int]int, len(h.iterPos))
		n.iterMap = make(map[int]Value, len(h.iterMap))
		for k, v := range h.iterKeys {
			n.iterKeys[k] = v
		}
		for k, v := range h.iterPos {
			n.iterPos[k] = v
		}
		for k, v := range h.iterMap {
			n.iterMap[k] = v
		}
	}
	return n
}

// forgetMaps drops what is known about map contents (after anything that may have changed
// maps without the executor seeing the keys).
func (h *Heap) forgetMaps() {
	h.mapKeys = nil
}

func objComp(root types.Type, leaf int) string {
	return fmt.Sprintf("O|%s|%d", typeKey(root), leaf)
}
func sliceComp(elem types.Type, leaf int) string {
	return fmt.Sprintf("S|%s|%d", typeKey(elem), leaf)
}

func compSort(name string, leafSort *Sort) *Sort {
	if strings.HasPrefix(name, "O|") {
		return ArraySort(RefSort, leafSort)
	}
	return ArraySort(RefSort, ArraySort(IdxSort, leafSort))
}

// State is the symbolic machine state at a program point.
type State struct {
	PC    *Term // path condition including assumptions
	Heap  *Heap
	Alloc *Term // allocation watermark: every live reference is <= Alloc
	Env   map[ssa.Value]Value
}

func (s *State) clone() *State {
	n := &State{PC: s.PC, Heap: s.Heap.clone(), Alloc: s.Alloc, Env: make(map[ssa.Value]Value, len(s.Env))}
	for k, v := range s.Env {
		n.Env[k] = v
	}
	return n
}

func (x *Exec) comp(st *State, name string, leafSort *Sort) *Term {
	if t, ok := st.Heap.comps[name]; ok {
		return t
	}
	t := x.C.Const("H0$"+name, compSort(name, leafSort))
	st.Heap.comps[name] = t
	x.compSorts[name] = leafSort
	return t
}

func (x *Exec) setComp(st *State, name string, leafSort *Sort, t *Term) {
	x.compSorts[name] = leafSort
	st.Heap.comps[name] = t
}

// location of leaf k (relative to the pointee) for pointer p.
func (x *Exec) ptrInfo(p Value) PtrInfo {
	if p.P != nil {
		return *p.P
	}
	pt, ok := p.T.Underlying().(*types.Pointer)
	if !ok {
		panic(unsupported("dereference of non-pointer " + p.T.String()))
	}
	if at, ok := pt.Elem().Underlying().(*types.Array); ok {
		return PtrInfo{Kind: PArr, Root: at.Elem(), N: at.Len()}
	}
	return PtrInfo{Kind: PObj, Root: pt.Elem()}
}

// Load reads a value of type t through pointer p.
func (x *Exec) Load(st *State, p Value, t types.Type) Value {
	pi := x.ptrInfo(p)
	lay := LayoutOf(t)
	out := Value{T: t, L: make([]*Term, len(lay.Leaves))}
	if pi.Kind == PArr {
		// loading a whole array value through *[N]T
		at := t.Underlying().(*types.Array)
		el := LayoutOf(at.Elem())
		for i := int64(0); i < at.Len(); i++ {
			for k := range el.Leaves {
				c := x.comp(st, sliceComp(pi.Root, k), el.Leaves[k].Sort)
				out.L[int(i)*len(el.Leaves)+k] = x.C.Select(x.C.Select(c, p.L[0]), x.C.BVI(i, 64))
			}
		}
		return x.wfLoaded(st, out)
	}
	for k, lf := range lay.Leaves {
		switch pi.Kind {
		case PObj:
			c := x.comp(st, objComp(pi.Root, pi.Off+k), lf.Sort)
			out.L[k] = x.C.Select(c, p.L[0])
		case PElem:
			c := x.comp(st, sliceComp(pi.Root, pi.Off+k), lf.Sort)
			out.L[k] = x.C.Select(x.C.Select(c, p.L[0]), pi.Idx)
		}
	}
	return x.wfLoaded(st, out)
}

// wfLoaded adds the heap well-formedness facts for reference-like leaves of a
// value read from memory: references were allocated before now.
func (x *Exec) wfLoaded(st *State, v Value) Value {
	if x.specMode > 0 {
		// Inside a spec function the well-formedness of a loaded value must not become part of
		// the path condition: the conditions under which the function's return values are merged
		// would then exclude ill-formed heaps, and the merged result would be wrong (not merely
		// unspecified) for them. The facts are handed to the calling state instead.
		x.specWF = append(x.specWF, x.wf(v, st.Alloc))
		return v
	}
	st.PC = x.C.And(st.PC, x.wf(v, st.Alloc))
	return v
}

// wf is the well-formedness predicate of a value relative to an allocation watermark.
func (x *Exec) wf(v Value, alloc *Term) *Term {
	lay := LayoutOf(v.T)
	c := x.C
	var fs []*Term
	for k, lf := range lay.Leaves {
		switch lf.Role {
		case "":
			if lf.Sort.Kind == SInt { // a Go int in math-int mode still fits 64 bits
				lim := c.bigInt(pow2(63))
				fs = append(fs, c.IntCmp(">=", v.L[k], c.IntBin("-", c.IntLit(0), lim)), c.IntCmp("<", v.L[k], lim))
			}
			if lf.Sort == StrSort { // a Go string has a length in [0, 2^48] (same ceiling as slices)
				ln := c.App(x.strLenFn(), v.L[k])
				fs = append(fs, c.BVCmp("bvsle", c.BVI(0, 64), ln), c.BVCmp("bvsle", ln, c.BVU(1<<48, 64)))
			}
		case "ref":
			fs = append(fs, c.IntCmp("<=", v.L[k], alloc))
		case "base":
			base, off, ln, cp := v.L[k], v.L[k+1], v.L[k+2], v.L[k+3]
			z := c.BVI(0, 64)
			maxc := c.BVU(1<<48, 64)
			fs = append(fs, c.IntCmp("<=", base, alloc), c.IntCmp(">=", base, c.IntLit(0)),
				c.BVCmp("bvsle", z, off), c.BVCmp("bvsle", z, ln), c.BVCmp("bvsle", ln, cp), c.BVCmp("bvsle", cp, maxc), c.BVCmp("bvsle", off, maxc), c.BVCmp("bvsle", c.BVBin("bvadd", off, cp), maxc),
				c.Implies(c.Eq(base, c.IntLit(0)), c.Eq(cp, z)))
		case "pay":
			fs = append(fs, c.IntCmp("<=", v.L[k], alloc))
		}
	}
	return c.And(fs...)
}

// StoreVal writes value v through pointer p.
func (x *Exec) StoreVal(st *State, p Value, v Value) {
	pi := x.ptrInfo(p)
	lay := LayoutOf(v.T)
	if !wholeObjectPtr(v) && v.P.Kind != PArr {
		panic(unsupported("interior pointer stored to memory"))
	}
	if pi.Kind == PArr || pi.Kind == PElem {
		x.noteSliceWrite(st, pi.Root, p.L[0], nil, x.curPos)
	}
	if pi.Kind == PArr {
		at := v.T.Underlying().(*types.Array)
		el := LayoutOf(at.Elem())
		for i := int64(0); i < at.Len(); i++ {
			for k := range el.Leaves {
				name := sliceComp(pi.Root, k)
				c := x.comp(st, name, el.Leaves[k].Sort)
				inner := x.C.Store(x.C.Select(c, p.L[0]), x.C.BVI(i, 64), v.L[int(i)*len(el.Leaves)+k])
				x.setComp(st, name, el.Leaves[k].Sort, x.C.Store(c, p.L[0], inner))
			}
		}
		return
	}
	for k, lf := range lay.Leaves {
		switch pi.Kind {
		case PObj:
			name := objComp(pi.Root, pi.Off+k)
			c := x.comp(st, name, lf.Sort)
			x.setComp(st, name, lf.Sort, x.C.Store(c, p.L[0], v.L[k]))
		case PElem:
			name := sliceComp(pi.Root, pi.Off+k)
			c := x.comp(st, name, lf.Sort)
			inner := x.C.Store(x.C.Select(c, p.L[0]), pi.Idx, v.L[k])
			x.setComp(st, name, lf.Sort, x.C.Store(c, p.L[0], inner))
		}
	}
}

// Zero returns the zero value of t.
func (x *Exec) Zero(t types.Type) Value {
	lay := LayoutOf(t)
	v := Value{T: t, L: make([]*Term, len(lay.Leaves))}
	for k, lf := range lay.Leaves {
		v.L[k] = x.zeroLeaf(lf.Sort)
	}
	return v
}

func (x *Exec) zeroLeaf(s *Sort) *Term {
	switch s.Kind {
	case SBool:
		return x.C.False()
	case SBV:
		return x.C.BVI(0, s.W)
	case SInt:
		return x.C.IntLit(0)
	default:
		if s == StrSort {
			return x.strLit("")
		}
		if s == F64Sort {
			return x.floatLit("0")
		}
	}
	panic("no zero for sort " + s.String())
}

// FreshValue returns a fully symbolic value of type t, and its well-formedness
// condition relative to alloc.
func (x *Exec) FreshValue(hint string, t types.Type) Value {
	lay := LayoutOf(t)
	v := Value{T: t, L: make([]*Term, len(lay.Leaves))}
	for k, lf := range lay.Leaves {
		v.L[k] = x.C.Fresh(hint+lf.Path, lf.Sort)
	}
	return v
}

// Allocate returns a new reference and bumps the watermark.
func (x *Exec) Allocate(st *State) *Term {
	r := x.C.IntBin("+", st.Alloc, x.C.IntLit(1))
	st.Alloc = r
	return r
}

// Merge builds ite(cond, a, b) leaf-wise.
func (x *Exec) MergeValues(cond *Term, a, b Value) Value {
	if len(a.Tuple) > 0 || len(b.Tuple) > 0 {
		out := Value{T: a.T, Tuple: make([]Value, len(a.Tuple))}
		for i := range a.Tuple {
			out.Tuple[i] = x.MergeValues(cond, a.Tuple[i], b.Tuple[i])
		}
		return out
	}
	if len(a.L) != len(b.L) {
		panic(unsupported(fmt.Sprintf("merge of values with different shapes: %s vs %s", a.T, b.T)))
	}
	out := Value{T: a.T, L: make([]*Term, len(a.L))}
	same := true
	for i := range a.L {
		out.L[i] = x.C.Ite(cond, a.L[i], b.L[i])
		if a.L[i] != b.L[i] {
			same = false
		}
	}
	switch {
	case a.P == nil && b.P == nil:
	case a.P != nil && b.P != nil && a.P.Kind == b.P.Kind && a.P.Off == b.P.Off && a.P.N == b.P.N && types.Identical(a.P.Root, b.P.Root):
		pi := *a.P
		if pi.Kind == PElem {
			pi.Idx = x.C.Ite(cond, a.P.Idx, b.P.Idx)
		}
		out.P = &pi
	default:
		// a nil pointer merges with anything
		if isNilRef(a) {
			out.P = b.P
		} else if isNilRef(b) {
			out.P = a.P
		} else {
			panic(unsupported("merge of pointers into different kinds of location"))
		}
	}
	if a.F != nil || b.F != nil {
		if same && a.F != nil && b.F != nil && a.F.Fn == b.F.Fn {
			out.F = a.F
		} else if a.F != nil && b.F != nil && a.F.Fn == b.F.Fn && len(a.F.Bindings) == len(b.F.Bindings) {
			cl := &Closure{Fn: a.F.Fn}
			for i := range a.F.Bindings {
				cl.Bindings = append(cl.Bindings, x.MergeValues(cond, a.F.Bindings[i], b.F.Bindings[i]))
			}
			out.F = cl
		} else {
			out.F = nil // unknown function value; calls through it are havocked
		}
	}
	return out
}

func isNilRef(v Value) bool {
	return len(v.L) == 1 && v.L[0].Op == "intlit" && v.L[0].Val.Sign() == 0
}

// Sub returns the sub-value of v at leaf offset off with type t.
func Sub(v Value, off int, t types.Type) Value {
	n := len(LayoutOf(t).Leaves)
	return Value{T: t, L: v.L[off : off+n : off+n]}
}

// Slice accessors.
func sliceParts(v Value) (base, off, ln, cp *Term) { return v.L[0], v.L[1], v.L[2], v.L[3] }

func (x *Exec) mkSlice(t types.Type, base, off, ln, cp *Term) Value {
	return Value{T: t, L: []*Term{base, off, ln, cp}}
}
