package vc

import (
	"os"
	"fmt"
	"go/constant"
	"go/token"
	"go/types"
	"math/big"
	"sort"
	"strings"
	"time"

	"golang.org/x/tools/go/ssa"
)

// Obligation is one verification condition: Assume => Goal.
type Obligation struct {
	Name    string
	Kind    string // post, pre, inv-entry, inv-step, nopanic, lemma, unwind, cover, decreases, frame
	Func    string
	Pos     string
	Assume  *Term
	Goal    *Term
	Cover   bool // expected SAT (reachability / vacuity guard): Assume && Goal must be satisfiable
	Bounded string // non-empty: this obligation was generated under a stated bound
	Text    string // contract text or description
	// ModelTerms are symbolic inputs whose values make a counterexample replayable.
	ModelTerms []NamedTerm
	Unit       string
	// PreCover: for a cover obligation placed after a contract application, the path condition
	// before the call. If that is unsatisfiable too the call sits on a dead path and the guard
	// does not apply.
	PreCover *Term
}

type NamedTerm struct {
	Name string
	T    *Term
}

// Options configure one verification unit.
type Options struct {
	Unroll     int  // default unroll bound for loops without invariants (0: reject)
	UnwindMust bool // unwinding assertions (complete) instead of assumptions
	MaxInline  int
	MaxRec     int // path mode: bound on nested activations of a recursive function
	NoContract map[string]bool // callees to inline even though they have a contract
	NoPanic    bool            // generate no-panic obligations
	Overflow   bool            // math-int mode: obligations that int arithmetic stays within 64 bits
	Bounded    string
	Reveal     bool // opaque spec functions are expanded (used when proving the contracts that define them)
	AssumeNoop map[string]bool // callees treated, in this unit only, as having no effect on the modelled heap (result arbitrary); a stated assumption
	Prune      bool // path mode: ask the solver at each fork and drop sides it refutes
	RevealOnly map[string]bool // if non-nil: only these opaque spec functions (by short name) are expanded
	AppendDouble bool // bounded lemmas: deterministic capacity growth on reallocating appends
	Paths      bool // path mode: fork at every symbolic branch, never merge (bounded lemmas)
	ModelElems bool // name the leading elements of slice parameters (counterexample replay)
	InlineAll  bool // falsifier mode: ignore contracts of callees with bodies, inline them instead
}

type Exec struct {
	C         *Ctx
	Prog      *Program
	Opt       Options
	Obls      []*Obligation
	compSorts map[string]*Sort
	typeIDs   map[string]int
	strLits   map[string]*Term
	fltLits   map[string]*Term
	finfo     map[*ssa.Function]*funcInfo
	globals   map[*ssa.Global]*Term
	counters  map[string]int
	unit      string
	unitFunc  string
	inputs    []NamedTerm
	Notes     *Notes
	depth     int
	stack     []*ssa.Function
	ghost     map[string]Value // ghost bindings for contract application
	rootContract *Contract   // contract of the function being verified (for dyncall effects)
	ifaceMethod *types.Func    // method being called through an interface-level contract (binds self and parameter names)
	specs     map[*ssa.Function]*specDef
	specMode  int
	defining  []*ssa.Function
	frameStack []*loopFrame
	curPos    token.Pos
	axiomsDone map[string]bool
	Trivial    int // obligations whose goal folded to true during generation
	ghostKeys  map[string]*ssa.Parameter // ghost variables live in State.Env under synthetic keys (merged like any value)
	pathInline bool
	pathSteps  int
	pruneQueries, pruned int
	symCache   map[int]map[string]bool
	closureTab map[int64]*Closure
	fnIDs      map[*ssa.Function]int64
	iptr       map[int]Value // interface payloads standing for interior pointers (see makeInterface)
	specWF     []*Term // well-formedness facts of values loaded inside spec functions (see wfLoaded)
	deadline   time.Time
	instrTick  int
	iterSeq    int
	reflectOf  map[int]Value // reflect.Value results -> the interface value they were made from
	cpuStart, cpuBudget time.Duration
	limitTick  int
}

// Notes accumulate everything assumed or abstracted during a run.
type Notes struct {
	Used         map[string]bool // contracts applied at call sites
	Uncontracted map[string]bool
	Assumed      map[string]bool
	Inlined      map[string]bool
	UnderContract map[string]bool
	Rejected     map[string]string
	Bounds       map[string]bool
}

func NewNotes() *Notes {
	return &Notes{Uncontracted: map[string]bool{}, Assumed: map[string]bool{}, Inlined: map[string]bool{}, UnderContract: map[string]bool{}, Rejected: map[string]string{}, Bounds: map[string]bool{}}
}

func NewExec(p *Program, opt Options, notes *Notes) *Exec {
	if opt.MaxInline == 0 {
		opt.MaxInline = 12
	}
	return &Exec{C: NewCtx(), Prog: p, Opt: opt, compSorts: map[string]*Sort{}, typeIDs: map[string]int{}, strLits: map[string]*Term{},
		fltLits: map[string]*Term{}, finfo: map[*ssa.Function]*funcInfo{}, globals: map[*ssa.Global]*Term{}, counters: map[string]int{}, Notes: notes}
}

func (x *Exec) typeID(t types.Type) *Term {
	k := typeKey(t)
	x.registerType(t)
	id, ok := x.typeIDs[k]
	if !ok {
		id = len(x.typeIDs) + 1
		x.typeIDs[k] = id
	}
	return x.C.IntLit(int64(id))
}

func (x *Exec) oblName(kind string) string {
	key := x.unit + "/" + kind
	x.counters[key]++
	if x.counters[key] == 1 {
		return key
	}
	return fmt.Sprintf("%s#%d", key, x.counters[key])
}

func (x *Exec) addObl(st *State, kind, sub string, goal *Term, pos token.Pos, text string) {
	x.checkLimits()
	if x.specMode > 0 {
		return
	}
	if goal.IsTrue() {
		// decided by the engine's own simplifier (constant folding along a concrete path)
		if !st.PC.IsFalse() {
			x.Trivial++
		}
		return
	}
	if st.PC.IsFalse() {
		return
	}
	name := kind
	if sub != "" {
		name = kind + "." + sub
	}
	o := &Obligation{Name: x.oblName(name), Kind: kind, Func: x.unitFunc, Pos: x.Prog.Pos(pos), Assume: st.PC, Goal: goal, Text: text, Bounded: x.Opt.Bounded, ModelTerms: x.inputs, Unit: x.unit}
	x.Obls = append(x.Obls, o)
}

func (x *Exec) addCover(st *State, sub string, pos token.Pos, text string) {
	if x.specMode > 0 || st.PC == nil {
		return
	}
	o := &Obligation{Name: x.oblName("cover." + sub), Kind: "cover", Func: x.unitFunc, Pos: x.Prog.Pos(pos), Assume: st.PC, Goal: x.C.True(), Cover: true, Text: text, Unit: x.unit}
	x.Obls = append(x.Obls, o)
}

// addCallCover guards against contradictory callee contracts: the state after applying the
// contract must be satisfiable whenever the state before the call was.
func (x *Exec) addCallCover(st *State, before *Term, callee string, pos token.Pos) {
	if x.specMode > 0 || st.PC == nil || st.PC == before {
		return
	}
	o := &Obligation{Name: x.oblName("cover.call." + callee), Kind: "cover", Func: x.unitFunc, Pos: x.Prog.Pos(pos), Assume: st.PC, Goal: x.C.True(), Cover: true, Text: "the assumed contract of " + callee + " is consistent with the state at this call", Unit: x.unit, PreCover: before}
	x.Obls = append(x.Obls, o)
}

func (x *Exec) assume(st *State, t *Term) { st.PC = x.C.And(st.PC, t) }

// ---------------------------------------------------------------- literals

func (x *Exec) strLenFn() *FuncDecl { return x.C.DeclareFun("gostr.len", []*Sort{StrSort}, IdxSort) }
func (x *Exec) strAtFn() *FuncDecl {
	return x.C.DeclareFun("gostr.at", []*Sort{StrSort, IdxSort}, BV(8))
}

func (x *Exec) strLit(s string) *Term {
	if t, ok := x.strLits[s]; ok {
		return t
	}
	name := fmt.Sprintf("str$%d", len(x.strLits))
	f := x.C.DeclareFun(name, nil, StrSort)
	t := x.C.App(f)
	x.strLits[s] = t
	// axioms attached to the literal symbol: length and bytes (bytes only for short literals)
	ax := []*Term{x.C.Eq(x.C.App(x.strLenFn(), t), x.C.BVI(int64(len(s)), 64))}
	if len(s) <= 32 {
		for i := 0; i < len(s); i++ {
			ax = append(ax, x.C.Eq(x.C.App(x.strAtFn(), t, x.C.BVI(int64(i), 64)), x.C.BVU(uint64(s[i]), 8)))
		}
	}
	// literals with different contents are different strings
	for o, ot := range x.strLits {
		if o != s {
			ax = append(ax, x.C.Distinct(t, ot))
		}
	}
	x.C.Axioms[name] = ax
	return t
}

func (x *Exec) floatLit(s string) *Term {
	if t, ok := x.fltLits[s]; ok {
		return t
	}
	name := fmt.Sprintf("f64$%d", len(x.fltLits))
	f := x.C.DeclareFun(name, nil, F64Sort)
	t := x.C.App(f)
	x.fltLits[s] = t
	return t
}

func (x *Exec) constValue(c *ssa.Const) Value {
	t := c.Type()
	if c.Value == nil {
		return x.Zero(t)
	}
	switch u := t.Underlying().(type) {
	case *types.Basic:
		info := u.Info()
		switch {
		case info&types.IsBoolean != 0:
			return Value{T: t, L: []*Term{x.C.Bool(constant.BoolVal(c.Value))}}
		case info&types.IsInteger != 0:
			v, _ := new(big.Int).SetString(constant.ToInt(c.Value).ExactString(), 10)
			if isMathInt(t) {
				return Value{T: t, L: []*Term{x.C.bigInt(v)}}
			}
			return Value{T: t, L: []*Term{x.C.BVLit(v, intWidth(u))}}
		case info&types.IsFloat != 0:
			return Value{T: t, L: []*Term{x.floatLit(c.Value.ExactString())}}
		case info&types.IsString != 0:
			return Value{T: t, L: []*Term{x.strLit(constant.StringVal(c.Value))}}
		}
	}
	panic(unsupported("constant of type " + t.String()))
}

// ---------------------------------------------------------------- CFG / loops

type loopInfo struct {
	header  *ssa.BasicBlock
	blocks  map[*ssa.BasicBlock]bool
	ordinal int // 1-based, in source order of header position
	parent  *loopInfo
}

type funcInfo struct {
	loops    []*loopInfo
	byHeader map[*ssa.BasicBlock]*loopInfo
	inner    map[*ssa.BasicBlock]*loopInfo // innermost loop containing a block
}

func (x *Exec) funcInfo(fn *ssa.Function) *funcInfo {
	if fi, ok := x.finfo[fn]; ok {
		return fi
	}
	fi := &funcInfo{byHeader: map[*ssa.BasicBlock]*loopInfo{}, inner: map[*ssa.BasicBlock]*loopInfo{}}
	for _, b := range fn.Blocks {
		for _, s := range b.Succs {
			if s.Dominates(b) { // back edge b -> s
				li := fi.byHeader[s]
				if li == nil {
					li = &loopInfo{header: s, blocks: map[*ssa.BasicBlock]bool{s: true}}
					fi.byHeader[s] = li
					fi.loops = append(fi.loops, li)
				}
				// natural loop: nodes reaching b without passing through s
				var stack []*ssa.BasicBlock
				if !li.blocks[b] {
					li.blocks[b] = true
					stack = append(stack, b)
				}
				for len(stack) > 0 {
					n := stack[len(stack)-1]
					stack = stack[:len(stack)-1]
					for _, p := range n.Preds {
						if !li.blocks[p] {
							li.blocks[p] = true
							stack = append(stack, p)
						}
					}
				}
			}
		}
	}
	sort.Slice(fi.loops, func(i, j int) bool { return fi.loops[i].header.Index < fi.loops[j].header.Index })
	for i, l := range fi.loops {
		l.ordinal = i + 1
	}
	// nesting: parent = smallest strictly containing loop
	for _, l := range fi.loops {
		for _, m := range fi.loops {
			if m != l && m.blocks[l.header] && len(m.blocks) > len(l.blocks) {
				if l.parent == nil || len(m.blocks) < len(l.parent.blocks) {
					l.parent = m
				}
			}
		}
	}
	for _, b := range fn.Blocks {
		for _, l := range fi.loops {
			if l.blocks[b] {
				if cur := fi.inner[b]; cur == nil || len(l.blocks) < len(cur.blocks) {
					fi.inner[b] = l
				}
			}
		}
	}
	x.finfo[fn] = fi
	return fi
}

// loop chain from outermost to innermost for block b
func (fi *funcInfo) chain(b *ssa.BasicBlock) []*loopInfo {
	var c []*loopInfo
	for l := fi.inner[b]; l != nil; l = l.parent {
		c = append([]*loopInfo{l}, c...)
	}
	return c
}

// virtual node = block + iteration counts of the enclosing loops
type vnode struct {
	b   *ssa.BasicBlock
	ctx string // "h1:c1,h2:c2"
}

type vedge struct {
	from  *State
	pred  *ssa.BasicBlock
	cond  *Term
}

type retPoint struct {
	st  *State
	val Value
}

// frame carries per-invocation information.
type frame struct {
	fn       *ssa.Function
	fi       *funcInfo
	args     []Value
	entry    *State // snapshot at entry (for old())
	contract *Contract
	verify   bool // verifying this function against its contract (top level)
	names    map[string]ssa.Value
	loopMode map[*loopInfo]int // -1: cut by invariant, >=0 unroll bound
	loopFrames map[*loopInfo]*loopFrame
	bindings []Value
}

func ctxKey(chain []*loopInfo, counts map[*loopInfo]int) string {
	var sb strings.Builder
	for _, l := range chain {
		fmt.Fprintf(&sb, "%d:%d,", l.header.Index, counts[l])
	}
	return sb.String()
}

// ExecFunc symbolically executes fn from state st with the given arguments and
// returns the merged result and the state after return.
func (x *Exec) ExecFunc(fr *frame, st *State) (Value, *State) {
	fn := fr.fn
	if fn.Blocks == nil {
		panic(unsupported("no body for " + fn.String()))
	}
	// fn.Recover exists for every function with a defer; only deferred calls that are known
	// no-ops (unlock, Done) are accepted by execInstr, so no recover() can intercept a panic here.
	fi := x.funcInfo(fn)
	fr.fi = fi
	// decide loop treatment
	fr.loopMode = map[*loopInfo]int{}
	for _, l := range fi.loops {
		mode := x.Opt.Unroll
		if fr.contract != nil {
			if lc := fr.contract.Loops[l.ordinal]; lc != nil {
				// A callee inlined on request (unit option "inline") is executed, not cut: its
				// invariants may name ghost parameters that only exist at contract call sites.
				if len(lc.Invariants) > 0 && !x.Opt.InlineAll && !(x.Opt.NoContract[QualName(fn)] && x.Opt.Unroll > 0) {
					mode = -1
				} else if lc.Unroll > 0 {
					mode = lc.Unroll
				}
			}
		}
		if mode == 0 {
			panic(unsupported(fmt.Sprintf("loop %d of %s has neither an invariant nor an unroll bound", l.ordinal, fn.String())))
		}
		fr.loopMode[l] = mode
	}

	// Static virtual graph by DFS.
	type nodeInfo struct {
		b      *ssa.BasicBlock
		counts map[*loopInfo]int
	}
	nodes := map[vnode]*nodeInfo{}
	var order []vnode // postorder
	succTarget := func(ni *nodeInfo, s *ssa.BasicBlock) (vnode, map[*loopInfo]int, string) {
		// returns target node, its counts, and a tag: "", "back-cut", "exceeded"
		counts := map[*loopInfo]int{}
		tchain := fi.chain(s)
		for _, l := range tchain {
			if c, ok := ni.counts[l]; ok {
				counts[l] = c
			} else {
				counts[l] = 0
			}
		}
		tag := ""
		if l := fi.byHeader[s]; l != nil && s.Dominates(ni.b) && l.blocks[ni.b] {
			// back edge
			if fr.loopMode[l] < 0 {
				tag = "back-cut"
			} else {
				counts[l] = ni.counts[l] + 1
				if counts[l] > fr.loopMode[l] {
					tag = "exceeded"
				}
			}
			// inner loops of l restart
			for _, m := range tchain {
				if m != l && l.blocks[m.header] && m.blocks[s] && len(m.blocks) < len(l.blocks) {
					counts[m] = 0
				}
			}
		}
		return vnode{s, ctxKey(tchain, counts)}, counts, tag
	}
	var dfs func(v vnode, ni *nodeInfo)
	dfs = func(v vnode, ni *nodeInfo) {
		nodes[v] = ni
		for _, s := range ni.b.Succs {
			tv, counts, tag := succTarget(ni, s)
			if tag != "" {
				continue
			}
			if _, ok := nodes[tv]; !ok {
				dfs(tv, &nodeInfo{b: s, counts: counts})
			}
		}
		order = append(order, v)
		if len(order) > 20000 {
			panic(unsupported("virtual CFG too large in " + fn.String()))
		}
	}
	entry := vnode{fn.Blocks[0], ""}
	dfs(entry, &nodeInfo{b: fn.Blocks[0], counts: map[*loopInfo]int{}})

	incoming := map[vnode][]vedge{}
	baseFrames := x.frameStack
	defer func() { x.frameStack = baseFrames }()
	start := st
	for i, p := range fn.Params {
		start.Env[p] = fr.args[i]
	}
	for i, fv := range fn.FreeVars {
		if i < len(fr.bindings) {
			start.Env[fv] = fr.bindings[i]
		}
	}
	incoming[entry] = []vedge{{from: start, cond: start.PC}}
	var rets []retPoint

	for i := len(order) - 1; i >= 0; i-- {
		v := order[i]
		ni := nodes[v]
		edges := incoming[v]
		delete(incoming, v)
		var live []vedge
		for _, e := range edges {
			if !e.cond.IsFalse() {
				live = append(live, e)
			}
		}
		if len(live) == 0 {
			continue
		}
		cur := x.mergeEdges(ni.b, live)
		b := ni.b
		// cut loop header
		if l := fi.byHeader[b]; l != nil && fr.loopMode[l] < 0 {
			x.frameStack = baseFrames
			x.cutLoopHeader(fr, l, cur)
		}
		x.frameStack = append([]*loopFrame{}, baseFrames...)
		for _, l := range fi.chain(b) {
			if lf := fr.loopFrames[l]; lf != nil {
				x.frameStack = append(x.frameStack, lf)
			}
		}
		x.execFrom(fr, cur, b, 0, func(cur *State, s *ssa.BasicBlock, cond *Term) {
			tv, _, tag := succTarget(ni, s)
			est := cur
			ec := x.C.And(cur.PC, cond)
			if ec.IsFalse() {
				return
			}
			switch tag {
			case "back-cut":
				x.checkBackEdge(fr, fi.byHeader[s], cur, b, ec)
			case "exceeded":
				l := fi.byHeader[s]
				tmp := &State{PC: ec, Heap: cur.Heap, Alloc: cur.Alloc, Env: cur.Env}
				if x.Opt.UnwindMust {
					x.addObl(tmp, "unwind", fmt.Sprintf("%s.loop%d", fn.Name(), l.ordinal), x.C.False(), b.Instrs[len(b.Instrs)-1].Pos(), fmt.Sprintf("loop %d of %s needs no more than %d iterations", l.ordinal, fn.Name(), fr.loopMode[l]))
				} else {
					x.Notes.Bounds[fmt.Sprintf("%s loop %d unrolled %d times (paths needing more iterations are not explored)", QualName(fn), l.ordinal, fr.loopMode[l])] = true
				}
			default:
				incoming[tv] = append(incoming[tv], vedge{from: est.snapshot(), pred: b, cond: ec})
			}
		}, &rets)
	}
	return x.mergeReturns(fn, rets)
}

// snapshot shares immutable parts; Env and Heap maps are copied lazily by mergeEdges (it always builds new maps).
func (s *State) snapshot() *State {
	return &State{PC: s.PC, Heap: s.Heap.clone(), Alloc: s.Alloc, Env: copyEnv(s.Env)}
}

func copyEnv(e map[ssa.Value]Value) map[ssa.Value]Value {
	n := make(map[ssa.Value]Value, len(e))
	for k, v := range e {
		n[k] = v
	}
	return n
}

func (x *Exec) mergeEdges(b *ssa.BasicBlock, edges []vedge) *State {
	c := x.C
	// phi values first (evaluated in each edge's environment)
	type phiVal struct {
		phi *ssa.Phi
		v   Value
	}
	var phis []phiVal
	econds := make([]*Term, len(edges))
	for i, e := range edges {
		econds[i] = e.cond
	}
	disc := c.Relativize(econds)
	for _, ins := range b.Instrs {
		phi, ok := ins.(*ssa.Phi)
		if !ok {
			break
		}
		var val Value
		first := true
		for i := len(edges) - 1; i >= 0; i-- {
			e := edges[i]
			idx := -1
			for k, p := range b.Preds {
				if p == e.pred {
					idx = k
					break
				}
			}
			if idx < 0 {
				panic("phi: predecessor not found")
			}
			ev := x.operand(e.from, phi.Edges[idx])
			ev.T = phi.Type()
			if first {
				val, first = ev, false
			} else {
				val = x.MergeValues(disc[i], ev, val)
			}
		}
		phis = append(phis, phiVal{phi, val})
	}
	if len(edges) == 1 {
		e := edges[0]
		st := &State{PC: e.cond, Heap: e.from.Heap, Alloc: e.from.Alloc, Env: e.from.Env}
		for _, p := range phis {
			st.Env[p.phi] = p.v
		}
		return st
	}
	conds := make([]*Term, len(edges))
	for i, e := range edges {
		conds[i] = e.cond
	}
	st := &State{PC: c.Or(conds...), Heap: &Heap{comps: map[string]*Term{}}, Env: map[ssa.Value]Value{}}
	// heap
	names := map[string]bool{}
	for _, e := range edges {
		for k := range e.from.Heap.comps {
			names[k] = true
		}
	}
	for k := range names {
		var val *Term
		for i := len(edges) - 1; i >= 0; i-- {
			e := edges[i]
			hv, ok := e.from.Heap.comps[k]
			if !ok {
				hv = c.Const("H0$"+k, compSort(k, x.compSorts[k]))
			}
			if val == nil {
				val = hv
			} else {
				val = c.Ite(disc[i], hv, val)
			}
		}
		st.Heap.comps[k] = val
	}
	// alloc
	for i := len(edges) - 1; i >= 0; i-- {
		e := edges[i]
		if st.Alloc == nil {
			st.Alloc = e.from.Alloc
		} else {
			st.Alloc = c.Ite(disc[i], e.from.Alloc, st.Alloc)
		}
	}
	// env: keys present in all edges
	for k, v0 := range edges[0].from.Env {
		ok := true
		val := Value{}
		for i := len(edges) - 1; i >= 0; i-- {
			ev, has := edges[i].from.Env[k]
			if !has {
				ok = false
				break
			}
			if i == len(edges)-1 {
				val = ev
			} else if !sameValue(ev, val) {
				func() {
					defer func() {
						if r := recover(); r != nil {
							if _, isU := r.(Unsupported); isU {
								ok = false // value cannot be merged; it must not be used after the join
								return
							}
							panic(r)
						}
					}()
					val = x.MergeValues(disc[i], ev, val)
				}()
				if !ok {
					break
				}
			}
		}
		_ = v0
		if ok {
			st.Env[k] = val
		}
	}
	for _, p := range phis {
		st.Env[p.phi] = p.v
	}
	return st
}

func sameValue(a, b Value) bool {
	if len(a.L) != len(b.L) || len(a.Tuple) != len(b.Tuple) || a.P != b.P || a.F != b.F {
		return false
	}
	for i := range a.L {
		if a.L[i] != b.L[i] {
			return false
		}
	}
	for i := range a.Tuple {
		if !sameValue(a.Tuple[i], b.Tuple[i]) {
			return false
		}
	}
	return true
}

func (x *Exec) mergeReturns(fn *ssa.Function, rets []retPoint) (Value, *State) {
	if len(rets) == 0 {
		return Value{}, &State{PC: x.C.False(), Heap: &Heap{comps: map[string]*Term{}}, Alloc: x.C.IntLit(0), Env: map[ssa.Value]Value{}}
	}
	c := x.C
	if len(rets) == 1 {
		return rets[0].val, rets[0].st
	}
	conds := make([]*Term, len(rets))
	for i, r := range rets {
		conds[i] = r.st.PC
	}
	st := &State{PC: c.Or(conds...), Heap: &Heap{comps: map[string]*Term{}}, Env: map[ssa.Value]Value{}}
	disc := c.Relativize(conds)
	names := map[string]bool{}
	for _, r := range rets {
		for k := range r.st.Heap.comps {
			names[k] = true
		}
	}
	for k := range names {
		var val *Term
		for i := len(rets) - 1; i >= 0; i-- {
			hv, ok := rets[i].st.Heap.comps[k]
			if !ok {
				hv = c.Const("H0$"+k, compSort(k, x.compSorts[k]))
			}
			if val == nil {
				val = hv
			} else {
				val = c.Ite(disc[i], hv, val)
			}
		}
		st.Heap.comps[k] = val
	}
	var val Value
	for i := len(rets) - 1; i >= 0; i-- {
		if i == len(rets)-1 {
			st.Alloc = rets[i].st.Alloc
			val = rets[i].val
		} else {
			st.Alloc = c.Ite(disc[i], rets[i].st.Alloc, st.Alloc)
			if len(val.L) > 0 || len(val.Tuple) > 0 {
				val = x.MergeValues(disc[i], rets[i].val, val)
			}
		}
	}
	return val, st
}

// operand evaluates an SSA operand in a state.
func (x *Exec) operand(st *State, v ssa.Value) Value {
	switch v := v.(type) {
	case *ssa.Const:
		return x.constValue(v)
	case *ssa.Function:
		id, ok := x.fnIDs[v]
		if !ok {
			id = x.newClosureID(&Closure{Fn: v})
			if x.fnIDs == nil {
				x.fnIDs = map[*ssa.Function]int64{}
			}
			x.fnIDs[v] = id
		}
		return Value{T: v.Type(), L: []*Term{x.C.IntLit(id)}, F: x.closureTab[id]}
	case *ssa.Global:
		r, ok := x.globals[v]
		if !ok {
			r = x.C.IntLit(int64(-1 - len(x.globals)))
			x.globals[v] = r
		}
		return Value{T: v.Type(), L: []*Term{r}}
	case *ssa.Builtin:
		return Value{T: v.Type()}
	}
	val, ok := st.Env[v]
	if !ok {
		panic(fmt.Sprintf("internal: no value for %s (%s) in %s", v.Name(), v.String(), v.Parent()))
	}
	return val
}

// execBlock runs the non-phi instructions of b.
// execFrom runs the non-phi instructions of b starting at index start. An append whose
// capacity test is symbolic forks the state (in place / reallocated), so that obligations
// generated before the next join are stated per case instead of over ite-merged arrays.
func (x *Exec) execFrom(fr *frame, st *State, b *ssa.BasicBlock, start int, edge func(st *State, s *ssa.BasicBlock, cond *Term), rets *[]retPoint) {
	for idx := start; idx < len(b.Instrs); idx++ {
		ins := b.Instrs[idx]
		if st.PC.IsFalse() {
			return
		}
		if call, ok := ins.(*ssa.Call); ok && x.specMode == 0 {
			if bi, ok := call.Call.Value.(*ssa.Builtin); ok && bi.Name() == "append" {
				s := x.operand(st, call.Call.Args[0])
				t := x.operand(st, call.Call.Args[1])
				if len(t.L) == 4 && !isString(t.T) {
					fits := x.C.BVCmp("bvsle", x.C.BVBin("bvadd", s.L[2], t.L[2]), s.L[3])
					if !fits.IsTrue() && !fits.IsFalse() && !(t.L[2].IsLit() && t.L[2].Val.Sign() == 0) {
						for _, c := range []*Term{fits, x.C.Not(fits)} {
							sub := st.snapshot()
							sub.PC = x.C.And(sub.PC, c)
							x.execInstr(fr, sub, ins)
							x.execFrom(fr, sub, b, idx+1, edge, rets)
						}
						return
					}
				}
			}
		}
		switch ins := ins.(type) {
		case *ssa.Phi:
			continue
		case *ssa.DebugRef:
			continue
		case *ssa.If:
			cond := x.operand(st, ins.Cond).L[0]
			edge(st, b.Succs[0], cond)
			edge(st, b.Succs[1], x.C.Not(cond))
			return
		case *ssa.Jump:
			edge(st, b.Succs[0], x.C.True())
			return
		case *ssa.Return:
			var val Value
			switch len(ins.Results) {
			case 0:
			case 1:
				val = x.operand(st, ins.Results[0])
				val.T = fr.fn.Signature.Results().At(0).Type()
			default:
				val = Value{T: fr.fn.Signature.Results()}
				for i, r := range ins.Results {
					rv := x.operand(st, r)
					rv.T = fr.fn.Signature.Results().At(i).Type()
					val.Tuple = append(val.Tuple, rv)
				}
			}
			if fr.verify {
				x.checkPost(fr, st, val, ins.Pos())
			}
			*rets = append(*rets, retPoint{st: st.snapshot(), val: val})
			return
		case *ssa.Panic:
			if x.Opt.NoPanic {
				x.addObl(st, "nopanic", "explicit", x.C.False(), ins.Pos(), "explicit panic is unreachable")
			}
			return
		default:
			x.execInstr(fr, st, ins)
		}
	}
}

func (x *Exec) execInstr(fr *frame, st *State, ins ssa.Instruction) {
	x.instrTick++
	if x.instrTick%256 == 0 {
		x.checkLimits()
	}
	c := x.C
	if ins.Pos().IsValid() {
		x.curPos = ins.Pos()
	}
	switch ins := ins.(type) {
	case *ssa.Alloc:
		elem := ins.Type().(*types.Pointer).Elem()
		st.Env[ins] = x.allocObject(st, ins.Type(), elem)
	case *ssa.BinOp:
		st.Env[ins] = x.binop(st, ins.Op, x.operand(st, ins.X), x.operand(st, ins.Y), ins.Type(), ins.Pos())
	case *ssa.UnOp:
		xv := x.operand(st, ins.X)
		switch ins.Op {
		case token.MUL:
			x.nilCheck(st, xv, ins.Pos())
			st.Env[ins] = x.Load(st, xv, ins.Type())
		case token.SUB:
			if isFloat(ins.Type()) {
				st.Env[ins] = Value{T: ins.Type(), L: []*Term{c.App(c.DeclareFun("f64.neg", []*Sort{F64Sort}, F64Sort), xv.L[0])}}
			} else if xv.L[0].Sort.Kind == SInt {
				st.Env[ins] = Value{T: ins.Type(), L: []*Term{c.IntBin("-", c.IntLit(0), xv.L[0])}}
			} else {
				st.Env[ins] = Value{T: ins.Type(), L: []*Term{c.BVNeg(xv.L[0])}}
			}
		case token.NOT:
			st.Env[ins] = Value{T: ins.Type(), L: []*Term{c.Not(xv.L[0])}}
		case token.XOR:
			st.Env[ins] = Value{T: ins.Type(), L: []*Term{c.BVNot(xv.L[0])}}
		default:
			panic(unsupported("unary operator " + ins.Op.String()))
		}
	case *ssa.Call:
		res := x.call(fr, st, ins.Common(), ins)
		st.Env[ins] = res
	case *ssa.ChangeInterface:
		v := x.operand(st, ins.X)
		v.T = ins.Type()
		st.Env[ins] = v
	case *ssa.ChangeType:
		v := x.operand(st, ins.X)
		v.T = ins.Type()
		st.Env[ins] = v
	case *ssa.Convert:
		st.Env[ins] = x.convert(st, x.operand(st, ins.X), ins.Type(), ins.Pos())
	case *ssa.Extract:
		t := x.operand(st, ins.Tuple)
		st.Env[ins] = t.Tuple[ins.Index]
	case *ssa.Field:
		v := x.operand(st, ins.X)
		off, _ := fieldOffset(v.T, ins.Field)
		st.Env[ins] = Sub(v, off, ins.Type())
	case *ssa.FieldAddr:
		p := x.operand(st, ins.X)
		x.nilCheck(st, p, ins.Pos())
		pi := x.ptrInfo(p)
		sT := p.T.Underlying().(*types.Pointer).Elem()
		off, _ := fieldOffset(sT, ins.Field)
		pi.Off += off
		st.Env[ins] = Value{T: ins.Type(), L: p.L, P: &pi}
	case *ssa.Index:
		st.Env[ins] = x.indexValue(st, x.operand(st, ins.X), x.operand(st, ins.Index), ins.Type(), ins.Pos())
	case *ssa.IndexAddr:
		st.Env[ins] = x.indexAddr(st, x.operand(st, ins.X), x.operand(st, ins.Index), ins.Type(), ins.Pos())
	case *ssa.Slice:
		st.Env[ins] = x.sliceOp(st, ins)
	case *ssa.MakeSlice:
		ln := x.toIdx(x.operand(st, ins.Len))
		cp := x.toIdx(x.operand(st, ins.Cap))
		if x.Opt.NoPanic {
			x.addObl(st, "nopanic", "makeslice", c.And(c.BVCmp("bvsle", c.BVI(0, 64), ln), c.BVCmp("bvsle", ln, cp), c.BVCmp("bvsle", cp, c.BVU(1<<48, 64))), ins.Pos(), "make: 0 <= len <= cap")
		}
		x.assume(st, c.And(c.BVCmp("bvsle", c.BVI(0, 64), ln), c.BVCmp("bvsle", ln, cp), c.BVCmp("bvsle", cp, c.BVU(1<<48, 64))))
		elem := ins.Type().Underlying().(*types.Slice).Elem()
		base := x.allocArray(st, elem)
		st.Env[ins] = x.mkSlice(ins.Type(), base, c.BVI(0, 64), ln, cp)
	case *ssa.MakeInterface:
		st.Env[ins] = x.makeInterface(st, x.operand(st, ins.X), ins.Type())
	case *ssa.TypeAssert:
		st.Env[ins] = x.typeAssert(st, ins)
	case *ssa.MakeClosure:
		cl := &Closure{Fn: ins.Fn.(*ssa.Function)}
		for _, b := range ins.Bindings {
			cl.Bindings = append(cl.Bindings, x.operand(st, b))
		}
		// a known function value has a positive identity (nil is 0), under which it is found
		// again after a round trip through memory (captured variables are heap cells)
		st.Env[ins] = Value{T: ins.Type(), L: []*Term{c.IntLit(x.newClosureID(cl))}, F: cl}
	case *ssa.Store:
		p := x.operand(st, ins.Addr)
		x.nilCheck(st, p, ins.Pos())
		v := x.operand(st, ins.Val)
		v.T = p.T.Underlying().(*types.Pointer).Elem()
		x.StoreVal(st, p, v)
	case *ssa.MakeMap:
		st.Env[ins] = x.makeMap(st, ins.Type())
	case *ssa.MapUpdate:
		x.mapUpdate(st, x.operand(st, ins.Map), x.operand(st, ins.Key), x.operand(st, ins.Value), ins.Pos())
	case *ssa.Lookup:
		st.Env[ins] = x.lookup(st, ins)
	case *ssa.RunDefers:
		// only reached when every Defer in the function was accepted as a no-op
	case *ssa.Defer:
		if callee := ins.Call.StaticCallee(); callee != nil && isNoopCallee(QualName(callee)) {
			x.Notes.Assumed["defer "+QualName(callee)+": no effect on modelled state"] = true
			return
		}
		panic(unsupported("defer of " + ins.Call.String()))
	case *ssa.Go, *ssa.Send, *ssa.Select:
		panic(unsupported("concurrency instruction " + ins.String()))
	case *ssa.Range:
		if _, ok := ins.X.Type().Underlying().(*types.Map); !ok {
			panic(unsupported("range over string: " + ins.String()))
		}
		// Iteration over a Go map is abstracted: the iterator is opaque and every Next yields an
		// arbitrary "more?" flag with an arbitrary key and value (a superset of the real
		// behaviours, so anything proved holds for the real order and contents).
		if x.Opt.Paths {
			mv := x.operand(st, ins.X)
			if keys, ok := st.Heap.mapKeys[mv.L[0].ID]; ok {
				// every entry of this map is known on this path: iterate them, in insertion order
				// (one of the orders Go may choose - a stated bound)
				x.iterSeq++
				id := x.iterSeq
				if st.Heap.iterKeys == nil {
					st.Heap.iterKeys, st.Heap.iterPos, st.Heap.iterMap = map[int][]Value{}, map[int]int{}, map[int]Value{}
				}
				st.Heap.iterKeys[id], st.Heap.iterPos[id], st.Heap.iterMap[id] = keys, 0, mv
				x.Notes.Bounds["range over a map whose entries are all known on the path: iterated in insertion order (one of the orders Go may choose)"] = true
				st.Env[ins] = Value{T: ins.Type(), L: []*Term{c.IntLit(int64(id))}}
				return
			}
		}
		x.Notes.Assumed["range over a map is abstracted: arbitrarily many iterations with arbitrary keys and values (nothing is concluded from the map's contents)"] = true
		st.Env[ins] = Value{T: ins.Type(), L: []*Term{c.IntLit(0)}}
	case *ssa.Next:
		if ins.IsString {
			panic(unsupported("range over string: " + ins.String()))
		}
		tup := ins.Type().(*types.Tuple)
		if it := x.operand(st, ins.Iter); len(it.L) == 1 && it.L[0].Op == "intlit" && it.L[0].Val.Sign() > 0 {
			id := int(it.L[0].Val.Int64())
			keys, mv := st.Heap.iterKeys[id], st.Heap.iterMap[id]
			mt := mv.T.Underlying().(*types.Map)
			pn, ps := x.mapPresent(st, mt)
			lay := LayoutOf(mt.Elem())
			ks := x.mapKeySort(mt)
			pos := st.Heap.iterPos[id]
			for pos < len(keys) {
				k := keys[pos]
				pos++
				present := c.Select(c.Select(x.comp(st, pn, ps), mv.L[0]), x.mapKey(mt, k))
				if present.IsFalse() {
					continue // deleted since the iteration began
				}
				if !present.IsTrue() {
					panic(unsupported("range over a map whose contents are not decided on this path"))
				}
				st.Heap.iterPos[id] = pos
				out := Value{T: tup, Tuple: []Value{{T: types.Typ[types.Bool], L: []*Term{c.True()}}}}
				kv := Value{T: tup.At(1).Type()}
				if b, ok := kv.T.(*types.Basic); !ok || b.Kind() != types.Invalid {
					kv = k
					kv.T = tup.At(1).Type()
				}
				vv := Value{T: tup.At(2).Type()}
				if b, ok := vv.T.(*types.Basic); !ok || b.Kind() != types.Invalid {
					vv = Value{T: mt.Elem(), L: make([]*Term, len(lay.Leaves))}
					for i, lf := range lay.Leaves {
						vv.L[i] = c.Select(c.Select(x.comp(st, x.mapValComp(mt, i), ArraySort(ks, lf.Sort)), mv.L[0]), x.mapKey(mt, k))
					}
					vv = x.wfLoaded(st, vv)
					vv.T = tup.At(2).Type()
				}
				out.Tuple = append(out.Tuple, kv, vv)
				st.Env[ins] = out
				return
			}
			st.Heap.iterPos[id] = pos
			out := Value{T: tup, Tuple: []Value{{T: types.Typ[types.Bool], L: []*Term{c.False()}}}}
			for i := 1; i < tup.Len(); i++ {
				ft := tup.At(i).Type()
				if b, ok := ft.(*types.Basic); ok && b.Kind() == types.Invalid {
					out.Tuple = append(out.Tuple, Value{T: ft})
				} else {
					out.Tuple = append(out.Tuple, x.Zero(ft))
				}
			}
			st.Env[ins] = out
			return
		}
		out := Value{T: tup}
		for i := 0; i < tup.Len(); i++ {
			ft := tup.At(i).Type()
			var fv Value
			if b, ok := ft.(*types.Basic); ok && b.Kind() == types.Invalid {
				fv = Value{T: ft} // blank key or value
			} else {
				fv = x.FreshValue("maprange", ft)
				x.assume(st, x.wf(fv, st.Alloc))
			}
			out.Tuple = append(out.Tuple, fv)
		}
		st.Env[ins] = out
	default:
		panic(unsupported(fmt.Sprintf("instruction %T", ins)))
	}
}

func (x *Exec) nilCheck(st *State, p Value, pos token.Pos) {
	if !x.Opt.NoPanic {
		return
	}
	if p.P != nil && p.P.Kind != PObj {
		return
	}
	if p.L[0].Op == "+" { // freshly allocated
		return
	}
	x.addObl(st, "nopanic", "nil", x.C.Distinct(p.L[0], x.C.IntLit(0)), pos, "pointer is not nil")
	x.assume(st, x.C.Distinct(p.L[0], x.C.IntLit(0)))
}

func (x *Exec) allocObject(st *State, ptrT types.Type, elem types.Type) Value {
	if at, ok := elem.Underlying().(*types.Array); ok {
		base := x.allocArray(st, at.Elem())
		return Value{T: ptrT, L: []*Term{base}, P: &PtrInfo{Kind: PArr, Root: at.Elem(), N: at.Len()}}
	}
	ref := x.Allocate(st)
	p := Value{T: ptrT, L: []*Term{ref}, P: &PtrInfo{Kind: PObj, Root: elem}}
	x.StoreVal(st, p, x.Zero(elem))
	return p
}

// allocArray allocates a zeroed backing array for elements of type elem.
func (x *Exec) allocArray(st *State, elem types.Type) *Term {
	base := x.Allocate(st)
	lay := LayoutOf(elem)
	for k, lf := range lay.Leaves {
		name := sliceComp(elem, k)
		cmp := x.comp(st, name, lf.Sort)
		x.setComp(st, name, lf.Sort, x.C.Store(cmp, base, x.C.ConstArray(ArraySort(IdxSort, lf.Sort), x.zeroLeaf(lf.Sort))))
	}
	return base
}

func (x *Exec) toIdx(v Value) *Term {
	t := v.L[0]
	if IdxSort.Kind == SInt {
		if t.Sort.Kind == SInt {
			return t
		}
		if t.Sort.Kind == SBV {
			return x.C.BVToInt(t, isSigned(v.T) || v.T == untypedInt)
		}
		panic("index is not an integer")
	}
	if t.Sort.Kind != SBV {
		panic("index is not an integer")
	}
	return x.C.Resize(t, 64, isSigned(v.T))
}

func (x *Exec) boundsObl(st *State, sub string, ok *Term, pos token.Pos, text string) {
	if x.specMode > 0 {
		return // spec functions are total: array reads out of range yield arbitrary bytes
	}
	if x.Opt.NoPanic {
		x.addObl(st, "nopanic", sub, ok, pos, text)
	}
	x.assume(st, ok)
}

func (x *Exec) inRange(i, n *Term) *Term {
	// 0 <= i < n, with n known non-negative: unsigned compare does both
	return x.C.BVCmp("bvult", i, n)
}

func (x *Exec) indexAddr(st *State, xs, idx Value, resT types.Type, pos token.Pos) Value {
	i := x.toIdx(idx)
	switch u := xs.T.Underlying().(type) {
	case *types.Slice:
		base, off, ln, _ := sliceParts(xs)
		x.boundsObl(st, "index", x.inRange(i, ln), pos, "index in range")
		if mathInts && x.specMode == 0 && !off.IsLit() && i.Op != "const" && i.Op != "var" && !i.IsLit() && !i.Bound {
			// Name a compound index: the element is then addressed as off + k with k atomic, the
			// shape quantified contracts use in their patterns (solvers flatten nested sums, and
			// a flattened sum no longer matches).
			k := x.C.Fresh("ix", IdxSort)
			x.assume(st, x.C.Eq(k, i))
			i = k
		}
		return Value{T: resT, L: []*Term{base}, P: &PtrInfo{Kind: PElem, Root: u.Elem(), Idx: x.C.BVBin("bvadd", off, i)}}
	case *types.Pointer:
		at := u.Elem().Underlying().(*types.Array)
		pi := x.ptrInfo(xs)
		if pi.Kind != PArr {
			// array embedded in an object (struct field, slice element): its elements are leaves of
			// the container; only literal indices select a static leaf offset
			x.boundsObl(st, "index", x.inRange(i, x.C.BVI(at.Len(), 64)), pos, "index in range")
			if !i.IsLit() {
				panic(unsupported("symbolic index into an array embedded in an object"))
			}
			npi := pi
			npi.Off += int(i.Val.Int64()) * len(LayoutOf(at.Elem()).Leaves)
			return Value{T: resT, L: xs.L, P: &npi}
		}
		x.boundsObl(st, "index", x.inRange(i, x.C.BVI(at.Len(), 64)), pos, "index in range")
		return Value{T: resT, L: xs.L, P: &PtrInfo{Kind: PElem, Root: at.Elem(), Idx: i}}
	}
	panic(unsupported("IndexAddr on " + xs.T.String()))
}

func (x *Exec) indexValue(st *State, xs, idx Value, resT types.Type, pos token.Pos) Value {
	at, ok := xs.T.Underlying().(*types.Array)
	if !ok {
		panic(unsupported("Index on " + xs.T.String()))
	}
	i := x.toIdx(idx)
	n := len(LayoutOf(at.Elem()).Leaves)
	x.boundsObl(st, "index", x.inRange(i, x.C.BVI(at.Len(), 64)), pos, "index in range")
	if i.IsLit() {
		return Sub(xs, int(i.Val.Int64())*n, resT)
	}
	out := Value{T: resT, L: make([]*Term, n)}
	for k := 0; k < n; k++ {
		var t *Term
		for e := at.Len() - 1; e >= 0; e-- {
			lf := xs.L[int(e)*n+k]
			if t == nil {
				t = lf
			} else {
				t = x.C.Ite(x.C.Eq(i, x.C.BVI(e, 64)), lf, t)
			}
		}
		out.L[k] = t
	}
	return out
}

func (x *Exec) sliceOp(st *State, ins *ssa.Slice) Value {
	c := x.C
	xs := x.operand(st, ins.X)
	var lo, hi, mx *Term
	if ins.Low != nil {
		lo = x.toIdx(x.operand(st, ins.Low))
	} else {
		lo = c.BVI(0, 64)
	}
	if ins.High != nil {
		hi = x.toIdx(x.operand(st, ins.High))
	}
	if ins.Max != nil {
		mx = x.toIdx(x.operand(st, ins.Max))
	}
	switch u := xs.T.Underlying().(type) {
	case *types.Slice:
		base, off, ln, cp := sliceParts(xs)
		if hi == nil {
			hi = ln
		}
		limit := cp
		if mx != nil {
			limit = mx
		}
		ok := c.And(c.BVCmp("bvule", lo, hi), c.BVCmp("bvule", hi, limit), c.BVCmp("bvule", limit, cp))
		x.boundsObl(st, "slice", ok, ins.Pos(), "slice bounds in range")
		return x.mkSlice(ins.Type(), base, c.BVBin("bvadd", off, lo), c.BVBin("bvsub", hi, lo), c.BVBin("bvsub", limit, lo))
	case *types.Pointer:
		at := u.Elem().Underlying().(*types.Array)
		pi := x.ptrInfo(xs)
		if pi.Kind != PArr {
			panic(unsupported("slice of array embedded in an object"))
		}
		n := c.BVI(at.Len(), 64)
		if hi == nil {
			hi = n
		}
		limit := n
		if mx != nil {
			limit = mx
		}
		ok := c.And(c.BVCmp("bvule", lo, hi), c.BVCmp("bvule", hi, limit), c.BVCmp("bvule", limit, n))
		x.boundsObl(st, "slice", ok, ins.Pos(), "slice bounds in range")
		return x.mkSlice(ins.Type(), xs.L[0], lo, c.BVBin("bvsub", hi, lo), c.BVBin("bvsub", limit, lo))
	case *types.Basic: // string
		ln := c.App(x.strLenFn(), xs.L[0])
		if hi == nil {
			hi = ln
		}
		ok := c.And(c.BVCmp("bvule", lo, hi), c.BVCmp("bvule", hi, ln))
		x.boundsObl(st, "slice", ok, ins.Pos(), "string slice bounds in range")
		return Value{T: ins.Type(), L: []*Term{x.strSub(xs.L[0], lo, hi)}}
	}
	panic(unsupported("slice of " + xs.T.String()))
}

// strSub is the substring function with its defining axioms.
func (x *Exec) strSub(s, lo, hi *Term) *Term {
	c := x.C
	f := c.DeclareFun("gostr.sub", []*Sort{StrSort, IdxSort, IdxSort}, StrSort)
	if _, ok := c.Axioms["gostr.sub"]; !ok {
		sv, l, h, i := c.Var("s", StrSort), c.Var("l", IdxSort), c.Var("h", IdxSort), c.Var("i", IdxSort)
		app := c.App(f, sv, l, h)
		c.Axioms["gostr.sub"] = []*Term{
			c.Forall([]*Term{sv, l, h}, c.Implies(c.And(c.BVCmp("bvule", l, h), c.BVCmp("bvule", h, c.App(x.strLenFn(), sv))), c.Eq(c.App(x.strLenFn(), app), c.BVBin("bvsub", h, l))), app),
			c.Forall([]*Term{sv, l, h, i}, c.Implies(c.And(c.BVCmp("bvule", l, h), c.BVCmp("bvule", h, c.App(x.strLenFn(), sv)), c.BVCmp("bvult", i, c.BVBin("bvsub", h, l))),
				c.Eq(c.App(x.strAtFn(), app, i), c.App(x.strAtFn(), sv, c.BVBin("bvadd", l, i)))), c.App(x.strAtFn(), app, i)),
		}
	}
	return c.App(f, s, lo, hi)
}

// ---------------------------------------------------------------- operators

func (x *Exec) binop(st *State, op token.Token, a, b Value, resT types.Type, pos token.Pos) Value {
	c := x.C
	mk := func(t *Term) Value { return Value{T: resT, L: []*Term{t}} }
	switch op {
	case token.EQL:
		return mk(x.valuesEqual(a, b))
	case token.NEQ:
		return mk(c.Not(x.valuesEqual(a, b)))
	}
	at := a.T
	if isString(at) {
		switch op {
		case token.ADD:
			return mk(x.strCat(a.L[0], b.L[0]))
		case token.LSS:
			return mk(x.strLess(a.L[0], b.L[0]))
		case token.GTR:
			return mk(x.strLess(b.L[0], a.L[0]))
		case token.LEQ:
			return mk(c.Not(x.strLess(b.L[0], a.L[0])))
		case token.GEQ:
			return mk(c.Not(x.strLess(a.L[0], b.L[0])))
		}
		panic(unsupported("string operator " + op.String()))
	}
	if isFloat(at) {
		name := map[token.Token]string{token.ADD: "f64.add", token.SUB: "f64.sub", token.MUL: "f64.mul", token.QUO: "f64.div",
			token.LSS: "f64.lt", token.LEQ: "f64.le", token.GTR: "f64.lt", token.GEQ: "f64.le"}[op]
		if name == "" {
			panic(unsupported("float operator " + op.String()))
		}
		l, r := a.L[0], b.L[0]
		if op == token.GTR || op == token.GEQ {
			l, r = r, l
		}
		if op == token.LSS || op == token.LEQ || op == token.GTR || op == token.GEQ {
			return mk(c.App(c.DeclareFun(name, []*Sort{F64Sort, F64Sort}, BoolSort), l, r))
		}
		return mk(c.App(c.DeclareFun(name, []*Sort{F64Sort, F64Sort}, F64Sort), l, r))
	}
	if isBool(at) {
		switch op {
		case token.AND, token.LAND:
			return mk(c.And(a.L[0], b.L[0]))
		case token.OR, token.LOR:
			return mk(c.Or(a.L[0], b.L[0]))
		}
		panic(unsupported("bool operator " + op.String()))
	}
	if !isInteger(at) {
		panic(unsupported(fmt.Sprintf("operator %s on %s", op, at)))
	}
	if isMathInt(at) || a.L[0].Sort.Kind == SInt {
		return x.mathBinop(st, op, a, b, resT, pos)
	}
	sg := isSigned(at)
	l, r := a.L[0], b.L[0]
	switch op {
	case token.SHL, token.SHR:
		w := l.Sort.W
		cnt := r
		if cnt.Sort.Kind == SInt {
			x.boundsObl(st, "shift", c.IntCmp(">=", cnt, c.IntLit(0)), pos, "shift count is not negative")
			cnt = c.Ite(c.IntCmp(">=", cnt, c.IntLit(int64(w))), c.BVI(int64(w), w), c.IntToBV(cnt, w))
			if op == token.SHL {
				return mk(c.BVBin("bvshl", l, cnt))
			}
			if sg {
				return mk(c.BVBin("bvashr", l, cnt))
			}
			return mk(c.BVBin("bvlshr", l, cnt))
		}
		if isSigned(b.T) {
			x.boundsObl(st, "shift", c.BVCmp("bvsge", cnt, c.BVI(0, cnt.Sort.W)), pos, "shift count is not negative")
		}
		if cnt.Sort.W > w {
			big := c.BVCmp("bvuge", cnt, c.BVI(int64(w), cnt.Sort.W))
			cnt = c.Ite(big, c.BVI(int64(w), w), c.Extract(w-1, 0, cnt))
		} else if cnt.Sort.W < w {
			cnt = c.ZExt(cnt, w)
		}
		if op == token.SHL {
			return mk(c.BVBin("bvshl", l, cnt))
		}
		if sg {
			return mk(c.BVBin("bvashr", l, cnt))
		}
		return mk(c.BVBin("bvlshr", l, cnt))
	}
	if l.Sort != r.Sort {
		panic(fmt.Sprintf("binop %s operand widths differ: %s %s", op, a.T, b.T))
	}
	switch op {
	case token.ADD:
		return mk(c.BVBin("bvadd", l, r))
	case token.SUB:
		return mk(c.BVBin("bvsub", l, r))
	case token.MUL:
		return mk(c.BVBin("bvmul", l, r))
	case token.QUO, token.REM:
		x.boundsObl(st, "div", c.Distinct(r, c.BVI(0, r.Sort.W)), pos, "divisor is not zero")
		o := map[bool]map[token.Token]string{true: {token.QUO: "bvsdiv", token.REM: "bvsrem"}, false: {token.QUO: "bvudiv", token.REM: "bvurem"}}[sg][op]
		return mk(c.BVBin(o, l, r))
	case token.AND:
		return mk(c.BVBin("bvand", l, r))
	case token.OR:
		return mk(c.BVBin("bvor", l, r))
	case token.XOR:
		return mk(c.BVBin("bvxor", l, r))
	case token.AND_NOT:
		return mk(c.BVBin("bvand", l, c.BVNot(r)))
	case token.LSS, token.LEQ, token.GTR, token.GEQ:
		o := map[token.Token]string{token.LSS: "lt", token.LEQ: "le", token.GTR: "gt", token.GEQ: "ge"}[op]
		if sg {
			return mk(c.BVCmp("bvs"+o, l, r))
		}
		return mk(c.BVCmp("bvu"+o, l, r))
	}
	panic(unsupported("integer operator " + op.String()))
}

func (x *Exec) valuesEqual(a, b Value) *Term {
	c := x.C
	if len(a.L) != len(b.L) {
		// comparison against nil of different shape (e.g. slice == nil)
		panic(unsupported(fmt.Sprintf("comparison of %s with %s", a.T, b.T)))
	}
	if _, ok := a.T.Underlying().(*types.Interface); ok && len(a.L) == 2 {
		// an interface is nil iff its dynamic type is absent
		isNil := func(v Value) bool {
			return v.L[0].Op == "intlit" && v.L[0].Val.Sign() == 0 && v.L[1].Op == "intlit" && v.L[1].Val.Sign() == 0
		}
		if isNil(b) {
			return c.Eq(a.L[0], c.IntLit(0))
		}
		if isNil(a) {
			return c.Eq(b.L[0], c.IntLit(0))
		}
	}
	if _, ok := a.T.Underlying().(*types.Slice); ok {
		// only s == nil is legal Go
		if isNilSlice(b) {
			return c.Eq(a.L[0], c.IntLit(0))
		}
		return c.Eq(b.L[0], c.IntLit(0))
	}
	if isFloat(a.T) {
		return c.App(c.DeclareFun("f64.eq", []*Sort{F64Sort, F64Sort}, BoolSort), a.L[0], b.L[0])
	}
	lay := LayoutOf(a.T)
	var fs []*Term
	for i := range a.L {
		if lay.Leaves[i].Sort == F64Sort {
			fs = append(fs, c.App(c.DeclareFun("f64.eq", []*Sort{F64Sort, F64Sort}, BoolSort), a.L[i], b.L[i]))
		} else {
			fs = append(fs, c.Eq(a.L[i], b.L[i]))
		}
	}
	return c.And(fs...)
}

func isNilSlice(v Value) bool {
	return len(v.L) == 4 && v.L[0].Op == "intlit" && v.L[0].Val.Sign() == 0
}

func (x *Exec) strCat(a, b *Term) *Term {
	c := x.C
	f := c.DeclareFun("gostr.cat", []*Sort{StrSort, StrSort}, StrSort)
	if _, ok := c.Axioms["gostr.cat"]; !ok {
		p, q, i := c.Var("p", StrSort), c.Var("q", StrSort), c.Var("i", IdxSort)
		app := c.App(f, p, q)
		lp, lq := c.App(x.strLenFn(), p), c.App(x.strLenFn(), q)
		c.Axioms["gostr.cat"] = []*Term{
			c.Forall([]*Term{p, q}, c.Eq(c.App(x.strLenFn(), app), c.BVBin("bvadd", lp, lq)), app),
			c.Forall([]*Term{p, q, i}, c.Eq(c.App(x.strAtFn(), app, i), c.Ite(c.BVCmp("bvult", i, lp), c.App(x.strAtFn(), p, i), c.App(x.strAtFn(), q, c.BVBin("bvsub", i, lp)))), c.App(x.strAtFn(), app, i)),
		}
	}
	return c.App(f, a, b)
}

func (x *Exec) strLess(a, b *Term) *Term {
	c := x.C
	f := c.DeclareFun("gostr.less", []*Sort{StrSort, StrSort}, BoolSort)
	if _, ok := c.Axioms["gostr.less"]; !ok {
		p, q, r := c.Var("p", StrSort), c.Var("q", StrSort), c.Var("r", StrSort)
		c.Axioms["gostr.less"] = []*Term{
			c.Forall([]*Term{p}, c.Not(c.App(f, p, p)), c.App(f, p, p)),
			// transitivity with one multi-pattern (each single pattern would miss a variable)
			c.intern(&Term{Op: "forall", Args: []*Term{c.Implies(c.And(c.App(f, p, q), c.App(f, q, r)), c.App(f, p, r))}, Vars: []*Term{p, q, r}, Pats: []*Term{c.App(f, p, q), c.App(f, q, r)}, Sort: BoolSort, Name: "multi"}),
			c.Forall([]*Term{p, q}, c.Or(c.App(f, p, q), c.App(f, q, p), c.Eq(p, q)), c.App(f, p, q)),
		}
	}
	return c.App(f, a, b)
}

func (x *Exec) convert(st *State, v Value, to types.Type, pos token.Pos) Value {
	c := x.C
	from := v.T
	if mathInts {
		if r, ok := x.mathConvert(v, to); ok {
			return r
		}
	}
	switch {
	case isInteger(from) && isInteger(to):
		w := intWidth(to.Underlying().(*types.Basic))
		return Value{T: to, L: []*Term{c.Resize(v.L[0], w, isSigned(from))}}
	case isInteger(from) && isFloat(to):
		name := fmt.Sprintf("f64.from.%s%d", map[bool]string{true: "s", false: "u"}[isSigned(from)], v.L[0].Sort.W)
		return Value{T: to, L: []*Term{c.App(c.DeclareFun(name, []*Sort{v.L[0].Sort}, F64Sort), v.L[0])}}
	case isFloat(from) && isInteger(to):
		w := intWidth(to.Underlying().(*types.Basic))
		name := fmt.Sprintf("f64.to.%s%d", map[bool]string{true: "s", false: "u"}[isSigned(to)], w)
		return Value{T: to, L: []*Term{c.App(c.DeclareFun(name, []*Sort{F64Sort}, BV(w)), v.L[0])}}
	case isFloat(from) && isFloat(to):
		if typeKey(from.Underlying()) == typeKey(to.Underlying()) {
			return Value{T: to, L: v.L}
		}
		return Value{T: to, L: []*Term{c.App(c.DeclareFun("f64.cvt."+typeKey(to.Underlying()), []*Sort{F64Sort}, F64Sort), v.L[0])}}
	case isString(from) && isString(to):
		return Value{T: to, L: v.L}
	}
	// string <-> []byte
	if sl, ok := to.Underlying().(*types.Slice); ok && isString(from) {
		if b, ok := sl.Elem().Underlying().(*types.Basic); ok && b.Kind() == types.Uint8 {
			return x.stringToBytes(st, v, to)
		}
	}
	if sl, ok := from.Underlying().(*types.Slice); ok && isString(to) {
		if b, ok := sl.Elem().Underlying().(*types.Basic); ok && b.Kind() == types.Uint8 {
			return x.bytesToString(st, v, to)
		}
	}
	if isInteger(from) && isString(to) {
		return Value{T: to, L: []*Term{c.App(c.DeclareFun("gostr.fromrune", []*Sort{v.L[0].Sort}, StrSort), v.L[0])}}
	}
	panic(unsupported(fmt.Sprintf("conversion %s -> %s", from, to)))
}

func (x *Exec) stringToBytes(st *State, v Value, to types.Type) Value {
	c := x.C
	elem := to.Underlying().(*types.Slice).Elem()
	base := x.Allocate(st)
	ln := c.App(x.strLenFn(), v.L[0])
	arr := c.Fresh("bytes.of.str", ArraySort(IdxSort, BV(8)))
	i := c.Var("i", IdxSort)
	x.assume(st, c.Forall([]*Term{i}, c.Implies(c.BVCmp("bvult", i, ln), c.Eq(c.Select(arr, i), c.App(x.strAtFn(), v.L[0], i))), c.Select(arr, i)))
	x.assume(st, c.BVCmp("bvule", ln, c.BVU(1<<48, 64)))
	name := sliceComp(elem, 0)
	cmp := x.comp(st, name, BV(8))
	x.setComp(st, name, BV(8), c.Store(cmp, base, arr))
	return x.mkSlice(to, base, c.BVI(0, 64), ln, ln)
}

func (x *Exec) bytesToString(st *State, v Value, to types.Type) Value {
	c := x.C
	elem := v.T.Underlying().(*types.Slice).Elem()
	base, off, ln, _ := sliceParts(v)
	inner := c.Select(x.comp(st, sliceComp(elem, 0), BV(8)), base)
	s := c.Fresh("str.of.bytes", StrSort)
	i := c.Var("i", IdxSort)
	x.assume(st, c.Eq(c.App(x.strLenFn(), s), ln))
	if ln.IsLit() && ln.Val.Int64() <= 16 {
		for k := int64(0); k < ln.Val.Int64(); k++ {
			x.assume(st, c.Eq(c.App(x.strAtFn(), s, c.BVI(k, 64)), c.Select(inner, c.BVBin("bvadd", off, c.BVI(k, 64)))))
		}
	} else {
		x.assume(st, c.Forall([]*Term{i}, c.Implies(c.BVCmp("bvult", i, ln), c.Eq(c.App(x.strAtFn(), s, i), c.Select(inner, c.BVBin("bvadd", off, i)))), c.App(x.strAtFn(), s, i)))
	}
	return Value{T: to, L: []*Term{s}}
}

// ---------------------------------------------------------------- interfaces

func (x *Exec) boxComp(t types.Type, k int) string { return fmt.Sprintf("O|box:%s|%d", typeKey(t), k) }

func (x *Exec) makeInterface(st *State, v Value, ifaceT types.Type) Value {
	c := x.C
	tag := x.typeID(v.T)
	switch v.T.Underlying().(type) {
	case *types.Pointer, *types.Map, *types.Chan:
		if !wholeObjectPtr(v) {
			// A pointer into the interior of an object (&o.field): the payload is a fresh
			// identity and the pointer itself is remembered beside it, so a method call or a
			// type assertion on this interface value gets the same pointer back. The identity
			// is arbitrary (comparisons of such interface values are undetermined); merging
			// two of them is not supported (path mode keeps them apart).
			if !x.Opt.Paths {
				panic(unsupported("interior pointer converted to interface (path mode only)"))
			}
			pay := c.Fresh("iptr", RefSort)
			if x.iptr == nil {
				x.iptr = map[int]Value{}
			}
			x.iptr[pay.ID] = v
			return Value{T: ifaceT, L: []*Term{tag, pay}}
		}
		return Value{T: ifaceT, L: []*Term{tag, v.L[0]}}
	}
	if v.F != nil {
		panic(unsupported("function value converted to interface"))
	}
	// Value types are boxed by value: the payload is an injective function of the leaves
	// (equal values give equal interfaces, as Go's == and map keys require), with inverse
	// functions to read the leaves back. No heap is involved.
	return Value{T: ifaceT, L: []*Term{tag, c.App(x.boxFuncs(v.T), v.L...)}}
}

// boxFuncs declares box$T (leaves -> payload id) and its inverses unbox$T$k.
func (x *Exec) boxFuncs(t types.Type) *FuncDecl {
	c := x.C
	name := "box$" + sanitize(typeKey(t))
	if f, ok := c.Funcs[name]; ok {
		return f
	}
	lay := LayoutOf(t)
	sorts := make([]*Sort, len(lay.Leaves))
	vars := make([]*Term, len(lay.Leaves))
	for k, lf := range lay.Leaves {
		sorts[k] = lf.Sort
		vars[k] = c.Var(fmt.Sprintf("b%d", k), lf.Sort)
	}
	f := c.DeclareFun(name, sorts, RefSort)
	app := c.App(f, vars...)
	var facts []*Term
	for k, lf := range lay.Leaves {
		inv := c.DeclareFun(fmt.Sprintf("un%s$%d", name, k), []*Sort{RefSort}, lf.Sort)
		facts = append(facts, c.Eq(c.App(inv, app), vars[k]))
	}
	facts = append(facts, c.IntCmp("<", app, c.IntLit(0))) // never an allocated reference, never nil
	if len(vars) > 0 {
		c.Axioms[name] = []*Term{c.Forall(vars, c.And(facts...), app)}
	} else {
		c.Axioms[name] = []*Term{c.And(facts...)}
	}
	return f
}

// unbox reads the payload of interface value iv as concrete type t.
func (x *Exec) unbox(st *State, iv Value, t types.Type) Value {
	switch t.Underlying().(type) {
	case *types.Pointer, *types.Map, *types.Chan:
		if v, ok := x.iptr[iv.L[1].ID]; ok && types.Identical(v.T, t) {
			return v
		}
		return Value{T: t, L: []*Term{iv.L[1]}}
	}
	lay := LayoutOf(t)
	out := Value{T: t, L: make([]*Term, len(lay.Leaves))}
	f := x.boxFuncs(t)
	// unbox(box(v)) = v syntactically when the payload is a known box application
	if iv.L[1].Op == "app" && iv.L[1].Name == f.Name {
		copy(out.L, iv.L[1].Args)
		return out
	}
	for k := range lay.Leaves {
		out.L[k] = x.C.App(x.C.Funcs[fmt.Sprintf("un%s$%d", f.Name, k)], iv.L[1])
	}
	return x.wfLoaded(st, out)
}

func (x *Exec) typeAssert(st *State, ins *ssa.TypeAssert) Value {
	c := x.C
	iv := x.operand(st, ins.X)
	at := ins.AssertedType
	if _, isIface := at.Underlying().(*types.Interface); isIface {
		// interface-to-interface assertion: succeeds iff dynamic type implements it; model via UF on tag
		ok := c.App(c.DeclareFun("implements$"+sanitize(typeKey(at)), []*Sort{RefSort}, BoolSort), iv.L[0])
		if iv.L[0].Op == "intlit" {
			// statically known dynamic type: decided by the type checker's method sets
			for k, id := range x.typeIDs {
				if int64(id) == iv.L[0].Val.Int64() {
					if dt := x.typeByKey(k); dt != nil {
						if types.Implements(dt, at.Underlying().(*types.Interface)) {
							ok = c.True()
						} else {
							ok = c.False()
						}
					}
				}
			}
		}
		ok = c.And(ok, c.Distinct(iv.L[0], c.IntLit(0)))
		res := Value{T: at, L: iv.L}
		if ins.CommaOk {
			z := x.Zero(at)
			return Value{T: ins.Type(), Tuple: []Value{x.MergeValues(ok, res, z), {T: types.Typ[types.Bool], L: []*Term{ok}}}}
		}
		x.boundsObl(st, "assert", ok, ins.Pos(), "interface conversion succeeds")
		return res
	}
	ok := c.Eq(iv.L[0], x.typeID(at))
	if ins.CommaOk {
		// evaluate payload under ok
		sub := &State{PC: c.And(st.PC, ok), Heap: st.Heap, Alloc: st.Alloc, Env: st.Env}
		val := x.unbox(sub, iv, at)
		z := x.Zero(at)
		return Value{T: ins.Type(), Tuple: []Value{x.MergeValues(ok, val, z), {T: types.Typ[types.Bool], L: []*Term{ok}}}}
	}
	x.boundsObl(st, "assert", ok, ins.Pos(), "type assertion succeeds")
	return x.unbox(st, iv, at)
}

// ---------------------------------------------------------------- maps

func (x *Exec) mapKeySort(mt *types.Map) *Sort {
	lay := LayoutOf(mt.Key())
	if len(lay.Leaves) == 1 {
		return lay.Leaves[0].Sort
	}
	// composite key (struct): a tuple datatype over the leaf sorts
	fields := make([]*Sort, len(lay.Leaves))
	for i, lf := range lay.Leaves {
		fields[i] = lf.Sort
	}
	return TupleSort("Key$"+sanitize(typeKey(mt.Key())), fields)
}

// mapKey turns a key value into the SMT index term of its map.
func (x *Exec) mapKey(mt *types.Map, k Value) *Term {
	if len(k.L) == 1 {
		return k.L[0]
	}
	return x.C.MkTuple(x.mapKeySort(mt), k.L...)
}

func (x *Exec) mapPresent(st *State, mt *types.Map) (string, *Sort) {
	return "O|mapP:" + typeKey(mt) + "|0", ArraySort(x.mapKeySort(mt), BoolSort)
}

func (x *Exec) mapValComp(mt *types.Map, k int) string {
	return fmt.Sprintf("O|mapV:%s|%d", typeKey(mt), k)
}

func (x *Exec) makeMap(st *State, t types.Type) Value {
	mt := t.Underlying().(*types.Map)
	ref := x.Allocate(st)
	pn, ps := x.mapPresent(st, mt)
	cmp := x.comp(st, pn, ps)
	x.setComp(st, pn, ps, x.C.Store(cmp, ref, x.C.ConstArray(ps, x.C.False())))
	if x.Opt.Paths {
		if st.Heap.mapKeys == nil {
			st.Heap.mapKeys = map[int][]Value{}
		}
		st.Heap.mapKeys[ref.ID] = []Value{}
	}
	return Value{T: t, L: []*Term{ref}}
}

// trackMapKey records key k of a map whose entries are all known on this path; a key that is
// not made of literals ends the tracking of that map (its iteration is abstracted again).
func (x *Exec) trackMapKey(st *State, m, k Value) {
	keys, ok := st.Heap.mapKeys[m.L[0].ID]
	if !ok {
		return
	}
	for _, t := range k.L {
		if !x.groundLit(t) {
			if traceCalls {
				fmt.Fprintf(os.Stderr, "TRACE map tracking dropped: key leaf %s\n", x.C.Show(t))
			}
			delete(st.Heap.mapKeys, m.L[0].ID)
			return
		}
	}
	for _, o := range keys {
		same := len(o.L) == len(k.L)
		for i := range o.L {
			if same && o.L[i] != k.L[i] {
				same = false
			}
		}
		if same {
			return
		}
	}
	nk := make([]Value, len(keys)+1)
	copy(nk, keys)
	nk[len(keys)] = k
	st.Heap.mapKeys[m.L[0].ID] = nk
}

// groundLit: a literal, or an injective box of literals (an interface holding a literal
// value) - distinct such terms denote distinct keys.
func (x *Exec) groundLit(t *Term) bool {
	if t.IsLit() || t.Op == "true" || t.Op == "false" || x.isStrLit(t) {
		return true
	}
	if t.Op == "app" && strings.HasPrefix(t.Name, "box$") {
		for _, a := range t.Args {
			if !x.groundLit(a) {
				return false
			}
		}
		return true
	}
	return false
}

func (x *Exec) isStrLit(t *Term) bool {
	for _, v := range x.strLits {
		if v == t {
			return true
		}
	}
	return false
}

func (x *Exec) mapUpdate(st *State, m, k, v Value, pos token.Pos) {
	mt := m.T.Underlying().(*types.Map)
	c := x.C
	x.boundsObl(st, "mapnil", c.Distinct(m.L[0], c.IntLit(0)), pos, "assignment to entry in non-nil map")
	x.hashableKey(st, mt, k, pos)
	x.trackMapKey(st, m, k)
	pn, ps := x.mapPresent(st, mt)
	cmp := x.comp(st, pn, ps)
	x.setComp(st, pn, ps, c.Store(cmp, m.L[0], c.Store(c.Select(cmp, m.L[0]), x.mapKey(mt, k), c.True())))
	lay := LayoutOf(mt.Elem())
	ks := x.mapKeySort(mt)
	for i, lf := range lay.Leaves {
		name := x.mapValComp(mt, i)
		s := ArraySort(ks, lf.Sort)
		vc := x.comp(st, name, s)
		x.setComp(st, name, s, c.Store(vc, m.L[0], c.Store(c.Select(vc, m.L[0]), x.mapKey(mt, k), v.L[i])))
	}
}

func (x *Exec) mapDelete(st *State, m, k Value) {
	mt := m.T.Underlying().(*types.Map)
	c := x.C
	pn, ps := x.mapPresent(st, mt)
	cmp := x.comp(st, pn, ps)
	// delete on a nil map is a no-op; the nil map has no entries by the axiom below
	x.setComp(st, pn, ps, c.Store(cmp, m.L[0], c.Store(c.Select(cmp, m.L[0]), x.mapKey(mt, k), c.False())))
}

func (x *Exec) lookup(st *State, ins *ssa.Lookup) Value {
	c := x.C
	xv := x.operand(st, ins.X)
	if isString(xv.T) {
		i := x.toIdx(x.operand(st, ins.Index))
		x.boundsObl(st, "index", x.inRange(i, c.App(x.strLenFn(), xv.L[0])), ins.Pos(), "string index in range")
		return Value{T: ins.Type(), L: []*Term{c.App(x.strAtFn(), xv.L[0], i)}}
	}
	mt := xv.T.Underlying().(*types.Map)
	k := x.operand(st, ins.Index)
	pn, ps := x.mapPresent(st, mt)
	present := c.And(c.Distinct(xv.L[0], c.IntLit(0)), c.Select(c.Select(x.comp(st, pn, ps), xv.L[0]), x.mapKey(mt, k)))
	lay := LayoutOf(mt.Elem())
	ks := x.mapKeySort(mt)
	val := Value{T: mt.Elem(), L: make([]*Term, len(lay.Leaves))}
	for i, lf := range lay.Leaves {
		s := ArraySort(ks, lf.Sort)
		val.L[i] = c.Ite(present, c.Select(c.Select(x.comp(st, x.mapValComp(mt, i), s), xv.L[0]), x.mapKey(mt, k)), x.zeroLeaf(lf.Sort))
	}
	val = x.wfLoaded(st, val)
	if ins.CommaOk {
		return Value{T: ins.Type(), Tuple: []Value{val, {T: types.Typ[types.Bool], L: []*Term{present}}}}
	}
	return val
}

func isNoopCallee(q string) bool {
	switch q {
	case "sync.(*Mutex).Lock", "sync.(*Mutex).Unlock", "sync.(*RWMutex).Lock", "sync.(*RWMutex).Unlock",
		"sync.(*RWMutex).RLock", "sync.(*RWMutex).RUnlock", "sync.(*WaitGroup).Done", "sync.(*WaitGroup).Add":
		return true
	}
	return false
}

// wholeObjectPtr: the pointer designates an object of its own pointee type (not a field
// or element inside a larger object - the first field of a struct has offset 0 as well).
func wholeObjectPtr(v Value) bool {
	if v.P == nil {
		return true
	}
	if v.P.Kind != PObj || v.P.Off != 0 {
		return false
	}
	if pt, ok := v.T.Underlying().(*types.Pointer); ok && v.P.Root != nil {
		return types.Identical(pt.Elem(), v.P.Root)
	}
	return true
}

func (x *Exec) newClosureID(cl *Closure) int64 {
	if x.closureTab == nil {
		x.closureTab = map[int64]*Closure{}
	}
	id := int64(len(x.closureTab) + 1)
	x.closureTab[id] = cl
	return id
}

// hashableKey: a map whose key type is an interface panics ("hash of unhashable type") when
// the key's dynamic type is not comparable. Decided when the dynamic type is known on the
// path; nothing is claimed (and nothing is reported) when it is not.
func (x *Exec) hashableKey(st *State, mt *types.Map, k Value, pos token.Pos) {
	if !x.Opt.NoPanic {
		return
	}
	if _, isIface := mt.Key().Underlying().(*types.Interface); !isIface || len(k.L) != 2 {
		return
	}
	if bad := x.unhashableDyn(k.L[0], k.L[1]); bad != nil {
		x.addObl(st, "nopanic", "hash", x.C.False(), pos, "map key of interface type holds a hashable value (here it holds a "+bad.String()+")")
		st.PC = x.C.False() // the real execution panics here: nothing follows on this path
	}
}

// unhashableDyn returns the first dynamic type inside the interface value (tag, payload)
// that Go cannot hash - looking through structs boxed by value into the interfaces they
// hold - or nil when every dynamic type that is known on this path can be hashed.
func (x *Exec) unhashableDyn(tag, pay *Term) types.Type {
	if tag.Op != "intlit" || tag.Val.Sign() == 0 {
		return nil
	}
	var dt types.Type
	for key, id := range x.typeIDs {
		if int64(id) == tag.Val.Int64() {
			dt = x.typeByKey(key)
		}
	}
	if dt == nil {
		return nil
	}
	if !types.Comparable(dt) {
		return dt
	}
	if pay.Op == "app" && strings.HasPrefix(pay.Name, "box$") {
		leaves := LayoutOf(dt).Leaves
		if len(leaves) == len(pay.Args) {
			for i, lf := range leaves {
				if lf.Role == "tag" && i+1 < len(pay.Args) {
					if bad := x.unhashableDyn(pay.Args[i], pay.Args[i+1]); bad != nil {
						return bad
					}
				}
			}
		}
	}
	return nil
}
