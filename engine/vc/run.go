package vc

import (
	"encoding/json"
	"fmt"
	"os"
	"path/filepath"
	"runtime/debug"
	"sort"
	"strconv"
	"strings"
	"sync"
	"time"

	"golang.org/x/tools/go/ssa"
)

// UnitSpec names one verification unit of a property.
type UnitSpec struct {
	Kind       string   `json:"kind"` // "lemma" | "func"
	Func       string   `json:"func"` // qualified name
	Unroll     int      `json:"unroll,omitempty"`
	Complete   bool     `json:"complete,omitempty"` // unwinding assertions on: a pass is a proof, not a bounded check
	Bounded    string   `json:"bounded,omitempty"`  // statement of the bound when not complete
	NoPanic    *bool    `json:"nopanic,omitempty"`
	Inline     []string `json:"inline,omitempty"` // callees inlined although they have a contract
	Tier       string   `json:"tier,omitempty"`   // "thorough": only in the thorough tier
	TimeoutS   int      `json:"timeout_s,omitempty"`
	MaxInline  int      `json:"max_inline,omitempty"`
	MaxRec     int      `json:"max_rec,omitempty"`
	AppendDouble bool   `json:"append_double,omitempty"`
	Reveal     bool     `json:"reveal,omitempty"`
	RevealOnly []string `json:"reveal_only,omitempty"` // expand only these opaque spec functions (short names)
	AssumeNoop []string `json:"assume_noop,omitempty"` // callees assumed (in this unit) to leave the modelled heap unchanged
	Prune      bool     `json:"prune,omitempty"`    // path mode: solver-checked pruning of infeasible branches
	Paths      bool     `json:"paths,omitempty"`    // path mode (bounded lemmas): fork at branches, never merge
	Ints       string   `json:"ints,omitempty"`     // "math": Go's int is a mathematical integer in this unit
	Overflow   bool     `json:"overflow,omitempty"` // with ints=math: obligations that int arithmetic stays in 64 bits
	Only        []string `json:"only,omitempty"`        // keep only obligations whose name contains one of these (others are listed as not checked)
	Witness     string  `json:"witness,omitempty"`      // func units: file under /verif/witness with a scenario test
	WitnessTest string  `json:"witness_test,omitempty"` // name of the test function in that file
	Note       string   `json:"note,omitempty"`
}

type PropSpec struct {
	ID          string     `json:"id"`
	Level       string     `json:"level"`
	Packages    []string   `json:"packages"`
	Units       []UnitSpec `json:"units"`
	Explanation string     `json:"explanation"`
	Unverified  []string   `json:"unverified"`
	TrustedBase []string   `json:"trusted_base"`
}

type KnownFinding struct {
	Property   string `json:"property"`
	Obligation string `json:"obligation"` // obligation name (prefix match on unit allowed with trailing *)
	What       string `json:"what"`
	Status     string `json:"status"` // "open" | "fixed"
	Commit     string `json:"commit,omitempty"`
	Witness    string `json:"witness,omitempty"`
}

type unitRun struct {
	spec    UnitSpec
	x       *Exec
	fn      *ssa.Function
	err     error
	results []*Result
	genSecs float64
}

type oblReport struct {
	Name    string  `json:"name"`
	Kind    string  `json:"kind"`
	Status  string  `json:"status"`
	Solver  string  `json:"solver"`
	Seconds float64 `json:"seconds"`
	Bytes   int     `json:"smt_bytes"`
	Logic   string  `json:"logic"`
	Pos     string  `json:"pos"`
	Text    string  `json:"text,omitempty"`
	Bounded string  `json:"bounded,omitempty"`
}

func VerifDir() string {
	if d := os.Getenv("VERIF_DIR"); d != "" {
		return d
	}
	return "/verif"
}

func loadKnown() []KnownFinding {
	var k []KnownFinding
	b, err := os.ReadFile(filepath.Join(VerifDir(), "known_findings.json"))
	if err == nil {
		json.Unmarshal(b, &k)
	}
	return k
}

// RunProperty is the entry point of `b6vc check`.
func RunProperty(id, tier string) int {
	start := time.Now()
	seed := 0
	if s := os.Getenv("VERIF_SEED"); s != "" {
		seed, _ = strconv.Atoi(s)
	}
	specFile := filepath.Join(VerifDir(), "props", id+".json")
	b, err := os.ReadFile(specFile)
	if err != nil {
		fmt.Println("ERROR cannot read", specFile, err)
		return 2
	}
	var spec PropSpec
	if err := json.Unmarshal(b, &spec); err != nil {
		fmt.Println("ERROR bad spec", specFile, err)
		return 2
	}
	work, err := os.MkdirTemp("", "b6vc-"+id+"-")
	if err != nil {
		fmt.Println("ERROR", err)
		return 2
	}
	if keep := os.Getenv("B6VC_KEEP"); keep != "" {
		// debugging aid: keep the SMT-LIB files under the given directory
		os.RemoveAll(keep)
		defer func() { os.Rename(work, keep) }()
	} else {
		defer os.RemoveAll(work)
	}
	os.Setenv("B6VC_WORK", work)
	replayDir := filepath.Join(VerifDir(), "replays", id)
	os.RemoveAll(replayDir)

	violations := 0
	var vioLines []string
	report := func(line string) {
		fmt.Println(line)
		vioLines = append(vioLines, line)
	}
	writeReplay := func(name string, payload map[string]interface{}) string {
		os.MkdirAll(replayDir, 0o755)
		f := filepath.Join(replayDir, sanitize(name)+".json")
		bb, _ := json.MarshalIndent(payload, "", " ")
		os.WriteFile(f, bb, 0o644)
		return f
	}

	t0 := time.Now()
	prog, err := Load(spec.Packages)
	loadSecs := time.Since(t0).Seconds()
	if err != nil {
		// The tree does not load with the contracts: nothing can be proved about it.
		f := writeReplay("load", map[string]interface{}{"property": id, "obligation": "load", "error": err.Error()})
		report(fmt.Sprintf("VIOLATION property=%s replay=%s obligation=load (the tree no longer type-checks together with its contracts) no-failing-input-found", id, f))
		writeEvidence(id, tier, seed, &spec, nil, nil, 1, time.Since(start).Seconds(), loadSecs, []string{err.Error()})
		return 1
	}
	notes := NewNotes()
	timeout := 30
	if tier == "thorough" {
		timeout = 180
	}
	var runs []*unitRun
	for _, us := range spec.Units {
		if us.Tier == "thorough" && tier != "thorough" {
			continue
		}
		if only := os.Getenv("B6VC_ONLY"); only != "" && !strings.Contains(us.Func, only) { // development aid
			continue
		}
		np := true
		if us.NoPanic != nil {
			np = *us.NoPanic
		}
		opt := Options{Unroll: us.Unroll, UnwindMust: us.Complete, NoPanic: np, NoContract: map[string]bool{}, MaxInline: us.MaxInline, Reveal: us.Reveal}
		if len(us.RevealOnly) > 0 {
			opt.RevealOnly = map[string]bool{}
			for _, n := range us.RevealOnly {
				opt.RevealOnly[n] = true
			}
		}
		if !us.Complete && us.Unroll > 0 {
			opt.Bounded = us.Bounded
			if opt.Bounded == "" {
				opt.Bounded = fmt.Sprintf("loops unrolled %d times", us.Unroll)
			}
		}
		if us.Bounded != "" {
			opt.Bounded = us.Bounded // the lemma itself fixes a shape (e.g. lists of length 3)
		}
		for _, q := range us.Inline {
			opt.NoContract[q] = true
		}
		SetIntMode(us.Ints == "math")
		opt.Overflow = us.Overflow
		opt.Paths = us.Paths
		opt.Prune = us.Prune
		if len(us.AssumeNoop) > 0 {
			opt.AssumeNoop = map[string]bool{}
			for _, q := range us.AssumeNoop {
				opt.AssumeNoop[q] = true
			}
		}
		opt.MaxRec = us.MaxRec
		opt.AppendDouble = us.AppendDouble
		if us.Ints == "math" && !us.Overflow {
			notes.Assumed["int arithmetic treated as mathematical (no overflow obligations) in "+us.Func] = true
		}
		resetLimits()
		startWatchdog()
		curUnit := us.Kind + "/" + us.Func
		hardAbort = func(reason string) {
			f := writeReplay(curUnit, map[string]interface{}{"property": id, "obligation": curUnit + "/generate", "verifier_output": reason,
				"note": "obligations for this unit could not be generated from the current source within the verifier's resources; the proof that held on the pinned tree no longer goes through"})
			fmt.Printf("VIOLATION property=%s replay=%s obligation=%s/generate (%s) no-failing-input-found\n", id, f, curUnit, reason)
			os.Exit(1)
		}
		x := NewExec(prog, opt, notes)
		x.deadline = time.Now().Add(unitTimeLimit)
		x.cpuStart, x.cpuBudget = cpuNow(), unitCPULimit
		unitCPUStart.Store(int64(x.cpuStart))
		r := &unitRun{spec: us, x: x}
		runs = append(runs, r)
		fn := prog.FuncByName(us.Func)
		if fn == nil {
			r.err = fmt.Errorf("function %s not found", us.Func)
			continue
		}
		r.fn = fn
		g0 := time.Now()
		unitStarted.Store(g0.UnixNano())
		func() {
			defer func() {
				if rec := recover(); rec != nil {
					r.err = fmt.Errorf("engine failure in %s: %v", us.Func, rec)
					if os.Getenv("B6VC_DEBUG") != "" {
						fmt.Fprintf(os.Stderr, "%v\n%s\n", rec, debug.Stack())
					}
				}
			}()
			switch us.Kind {
			case "lemma":
				r.err = x.VerifyLemma(fn)
			case "func":
				ct := prog.Contracts[us.Func]
				if ct == nil {
					r.err = fmt.Errorf("no contract for %s", us.Func)
					return
				}
				r.err = x.VerifyFunc(fn, ct)
			default:
				r.err = fmt.Errorf("unknown unit kind %q", us.Kind)
			}
		}()
		r.genSecs = time.Since(g0).Seconds()
		unitStarted.Store(0)
		if r.err == nil {
			udir := filepath.Join(work, sanitize(us.Func))
			os.MkdirAll(udir, 0o755)
			for _, o := range x.Obls {
				if len(us.Only) > 0 && !o.Cover {
					keep := false
					for _, sub := range us.Only {
						if strings.Contains(o.Name, sub) {
							keep = true
						}
					}
					if !keep {
						notes.Bounds[fmt.Sprintf("%s: obligation %s generated but outside this check's scope (only %v)", us.Func, o.Name, us.Only)] = true
						continue
					}
				}
				r.results = append(r.results, prepare(x.C, o, udir))
			}
		}
	}
	// solve everything in parallel
	par := 12
	sem := make(chan struct{}, par)
	var wg sync.WaitGroup
	for _, r := range runs {
		to := timeout
		if r.spec.TimeoutS > 0 {
			to = r.spec.TimeoutS
			if tier == "thorough" {
				to *= 4
			}
		}
		for _, res := range r.results {
			wg.Add(1)
			sem <- struct{}{}
			go func(res *Result, to int) {
				defer wg.Done()
				defer func() { <-sem }()
				runSolvers(res, to)
			}(res, to)
		}
	}
	wg.Wait()

	// Falsifier pass: an undecided lemma obligation (quantified VC: the solvers answer
	// "unknown", never "sat") is retried with contracts ignored, spec functions revealed
	// and loops unrolled, which is quantifier-free and yields a concrete model when the
	// lemma is false for small unrollings.
	// When a function contract fails, the lemmas that compose such contracts still pass
	// (a caller only sees the callee's contract); they are then falsified as well, so that
	// the violation comes with an input that fails on the real code.
	failedFuncs := map[string]bool{}
	for _, r := range runs {
		if r.spec.Kind == "func" {
			bad := r.err != nil
			for _, res := range r.results {
				if !res.Obl.Cover && res.Status != Proved {
					bad = true
				}
			}
			if bad {
				failedFuncs[r.spec.Func] = true
			}
		}
	}
	ftimeout := 20
	if tier == "thorough" {
		ftimeout = 90
	}
	type falsJob struct {
		r    *unitRun
		need map[string]*Result
		fx   *Exec
		fres []*Result
		unroll int
	}
	var fjobs []*falsJob
	for _, r := range runs {
		if r.err != nil || r.spec.Kind != "lemma" || r.spec.Paths {
			// (path-mode lemmas already run the real bodies, unrolled, along concrete paths:
			// their failures carry models, and merging their paths again would only explode)
			continue
		}
		// a lemma that still passes is only worth falsifying when it (transitively) calls a
		// function whose contract failed
		reaches := len(failedFuncs) > 0 && reachesAny(r.fn, failedFuncs)
		need := map[string]*Result{}
		for _, res := range r.results {
			if !res.Obl.Cover && res.Obl.Kind == "lemma" && res.Model == nil && (res.Status != Proved || reaches) {
				need[res.Obl.Name] = res
			}
		}
		if len(need) == 0 {
			continue
		}
		fopt := Options{Unroll: 2, NoPanic: false, NoContract: map[string]bool{}, Reveal: true, InlineAll: true, ModelElems: true, MaxInline: r.spec.MaxInline}
		if r.spec.Unroll > fopt.Unroll {
			fopt.Unroll = r.spec.Unroll
		}
		SetIntMode(false) // the falsifier uses exact machine arithmetic
		fx := NewExec(prog, fopt, NewNotes())
		fx.deadline = time.Now().Add(90 * time.Second)
		var ferr error
		func() {
			defer func() {
				if rec := recover(); rec != nil {
					ferr = fmt.Errorf("%v", rec)
				}
			}()
			ferr = fx.VerifyLemma(r.fn)
		}()
		if ferr != nil {
			continue
		}
		fdir := filepath.Join(work, "falsify-"+sanitize(r.spec.Func))
		os.MkdirAll(fdir, 0o755)
		job := &falsJob{r: r, need: need, fx: fx, unroll: fopt.Unroll}
		for _, o := range fx.Obls {
			if _, ok := need[o.Name]; ok && !o.Cover {
				job.fres = append(job.fres, prepare(fx.C, o, fdir))
			}
		}
		fjobs = append(fjobs, job)
	}
	{
		var fwg sync.WaitGroup
		fsem := make(chan struct{}, 6)
		for _, job := range fjobs {
			for _, fr := range job.fres {
				fwg.Add(1)
				fsem <- struct{}{}
				go func(fr *Result) { defer fwg.Done(); defer func() { <-fsem }(); runSolvers(fr, ftimeout) }(fr)
			}
		}
		fwg.Wait()
	}
	for _, job := range fjobs {
		for _, fr := range job.fres {
			if fr.Status == Refuted && fr.Model != nil {
				orig := job.need[fr.Obl.Name]
				if orig.Status == Proved {
					orig.Output = "discharged modularly (callee contracts), but a contract of a callee failed; "
				}
				orig.Model = fr.Model
				orig.Status = Refuted
				orig.Obl.ModelTerms = fr.Obl.ModelTerms
				orig.Output += "\nfalsifier (contracts ignored, definitions revealed, loops unrolled " + fmt.Sprint(job.unroll) + "x): " + fr.Solver + " sat"
			}
		}
	}

	known := loadKnown()
	matchKnown := func(obl string) *KnownFinding {
		for i := range known {
			k := &known[i]
			if k.Property != id || k.Status != "open" {
				continue
			}
			if k.Obligation == obl || (strings.HasSuffix(k.Obligation, "*") && strings.HasPrefix(obl, strings.TrimSuffix(k.Obligation, "*"))) {
				return k
			}
		}
		return nil
	}
	knownSeen := map[string]bool{}

	var reports []oblReport
	total, discharged, bounded := 0, 0, 0
	var samples []interface{}
	var solverSecs float64
	engineErrors := 0
	for _, r := range runs {
		if r.err != nil {
			total++
			name := r.spec.Kind + "/" + r.spec.Func
			if k := matchKnown(name); k != nil {
				if !knownSeen[k.Obligation] {
					knownSeen[k.Obligation] = true
					fmt.Printf("KNOWN-FINDING: property=%s %s\n", id, k.What)
				}
				continue
			}
			violations++
			f := writeReplay(name, map[string]interface{}{"property": id, "obligation": name + "/generate", "verifier_output": r.err.Error(),
				"note": "obligations for this unit could not be generated from the current source; the proof that held on the pinned tree no longer goes through"})
			report(fmt.Sprintf("VIOLATION property=%s replay=%s obligation=%s/generate (%s) no-failing-input-found", id, f, name, oneLine(r.err.Error())))
			reports = append(reports, oblReport{Name: name + "/generate", Kind: "generate", Status: "failed", Text: r.err.Error()})
			continue
		}
		for _, res := range r.results {
			o := res.Obl
			total++
			solverSecs += res.Seconds
			rep := oblReport{Name: o.Name, Kind: o.Kind, Status: string(res.Status), Solver: res.Solver, Seconds: round3(res.Seconds), Bytes: res.Bytes, Logic: res.Logic, Pos: o.Pos, Text: o.Text, Bounded: o.Bounded}
			reports = append(reports, rep)
			if res.Status == Proved {
				discharged++
				if o.Bounded != "" {
					bounded++
				}
				if len(samples) < 3 && !o.Cover {
					samples = append(samples, map[string]interface{}{"obligation": o.Name, "function": o.Func, "at": o.Pos, "states": o.Text, "smt_bytes": res.Bytes, "logic": res.Logic, "solver": res.Solver, "seconds": round3(res.Seconds)})
				}
				continue
			}
			if o.Cover {
				// vacuity guard failed: the machinery is broken, not the code
				engineErrors++
				fmt.Printf("ERROR vacuity guard %s is not satisfiable (%s)\n", o.Name, res.Status)
				continue
			}
			if k := matchKnown(o.Name); k != nil {
				if !knownSeen[k.Obligation] {
					knownSeen[k.Obligation] = true
					fmt.Printf("KNOWN-FINDING: property=%s %s\n", id, k.What)
				}
				continue
			}
			violations++
			payload := map[string]interface{}{"property": id, "obligation": o.Name, "kind": o.Kind, "function": o.Func, "position": o.Pos, "statement": o.Text,
				"solver": res.Solver, "status": string(res.Status), "verifier_output": res.Output, "smt_logic": res.Logic}
			if sm, err := os.ReadFile(res.File); err == nil && len(sm) < 400000 {
				payload["smt2"] = string(sm)
			}
			suffix := " no-failing-input-found"
			if r.spec.Kind == "lemma" && len(r.fn.Params) == 0 && !(res.Status == Refuted && res.Model != nil) {
				// a lemma without parameters is its own counterexample: run it on the real code
				ro := ReplayLemma(prog, r.fn, nil, map[string]string{}, work)
				payload["replay"] = ro
				if ro.Confirmed {
					suffix = ""
				}
			}
			if res.Candidate && res.Model != nil && r.spec.Kind == "lemma" && res.Status != Refuted {
				// candidate input (see solve.go): it counts only if the real code fails on it
				ro := ReplayLemma(prog, r.fn, o.ModelTerms, res.Model, work)
				payload["candidate_model"] = res.Model
				payload["replay"] = ro
				if ro.Confirmed {
					suffix = ""
				}
			}
			if res.Status == Refuted && res.Model != nil {
				payload["model"] = res.Model
				if r.spec.Kind == "lemma" {
					ro := ReplayLemma(prog, r.fn, o.ModelTerms, res.Model, work)
					payload["replay"] = ro
					if ro.Confirmed {
						suffix = ""
					}
				} else {
					ro := ReplayFunc(prog, r.fn, prog.Contracts[r.spec.Func], o, res.Model, work)
					payload["replay"] = ro
					if ro.Confirmed {
						suffix = ""
					}
				}
			}
			if suffix != "" && r.spec.Kind == "func" && r.spec.Witness != "" && (o.Kind == "post" || o.Kind == "inv-step" || o.Kind == "frame" || o.Kind == "nopanic") {
				// the failed contract has a hand-written witness scenario: run it on the real code
				ro := ReplayWitness(r.fn.Pkg.Pkg.Path(), r.spec.Witness, r.spec.WitnessTest, work)
				payload["replay"] = ro
				if ro.Confirmed {
					suffix = ""
				}
			}
			f := writeReplay(o.Name, payload)
			report(fmt.Sprintf("VIOLATION property=%s replay=%s obligation=%s (%s at %s)%s", id, f, o.Name, oneLine(o.Text), o.Pos, suffix))
		}
	}
	sort.Slice(reports, func(i, j int) bool { return reports[i].Name < reports[j].Name })
	wall := time.Since(start).Seconds()
	ev := &evidenceExtra{reports: reports, total: total, discharged: discharged, bounded: bounded, samples: samples, notes: notes, solverSecs: solverSecs, runs: runs}
	writeEvidence(id, tier, seed, &spec, ev, vioLines, violations, wall, loadSecs, nil)
	fmt.Printf("b6vc %s %s: %d obligations, %d discharged (%d under a stated bound), %d violations, %.1fs\n", id, tier, total, discharged, bounded, violations, wall)
	if violations > 0 {
		return 1 // a failed obligation explains an unreachable end of lemma (asserted facts are assumed afterwards)
	}
	if engineErrors > 0 {
		return 2
	}
	return 0
}

func oneLine(s string) string {
	s = strings.Join(strings.Fields(s), " ")
	if len(s) > 160 {
		s = s[:160] + "…"
	}
	return s
}

func round3(f float64) float64 { return float64(int(f*1000+0.5)) / 1000 }

type evidenceExtra struct {
	reports    []oblReport
	total      int
	discharged int
	bounded    int
	samples    []interface{}
	notes      *Notes
	solverSecs float64
	runs       []*unitRun
}

func keys(m map[string]bool) []string {
	out := make([]string, 0, len(m))
	for k := range m {
		out = append(out, k)
	}
	sort.Strings(out)
	return out
}

func writeEvidence(id, tier string, seed int, spec *PropSpec, ev *evidenceExtra, vio []string, violations int, wall, loadSecs float64, errs []string) {
	cov := map[string]interface{}{
		"checker_cmd":  fmt.Sprintf("/verif/check %s %s  (b6vc: go/ssa weakest-precondition generator -> SMT-LIB -> z3 5.1.0 | cvc5 1.0 | z3 4.8.12)", id, tier),
		"trusted_base": append([]string{"golang.org/x/tools v0.29.0 go/packages+go/types+go/ssa build the IR from the files the compiler sees", "b6vc SSA->SMT semantics (/verif/engine)", "z3 5.1.0, z3 4.8.12, cvc5 1.0.3"}, spec.TrustedBase...),
		"explanation":  spec.Explanation,
		"unverified":   spec.Unverified,
	}
	assumptions := []string{"slices: 0 <= len <= cap <= 2^48 (amd64 address space)", "int and uint are 64-bit vectors with Go wrap-around semantics (no mathematical-integer abstraction)"}
	level := spec.Level
	if ev != nil {
		cov["obligations"] = ev.total
		cov["discharged"] = ev.discharged
		cov["discharged_under_stated_bound"] = ev.bounded
		cov["discharged_unbounded_or_complete"] = ev.discharged - ev.bounded
		cov["samples"] = ev.samples
		if len(ev.samples) == 0 {
			cov["samples"] = []interface{}{map[string]interface{}{"note": "no obligation was discharged in this run"}}
		}
		cov["obligation_list"] = ev.reports
		cov["solver_seconds_total"] = round3(ev.solverSecs)
		cov["load_seconds"] = round3(loadSecs)
		cov["functions_under_contract"] = keys(ev.notes.UnderContract)
		var usedOnly []string
		for _, k := range keys(ev.notes.Used) {
			if !ev.notes.UnderContract[k] {
				usedOnly = append(usedOnly, k)
			}
		}
		cov["contracts_used_at_call_sites_but_verified_by_another_check"] = usedOnly
		for _, k := range usedOnly {
			assumptions = append(assumptions, "contract of "+k+" is used here and verified by the check that lists it under functions_under_contract (see DESIGN.md table of contracts)")
		}
		cov["functions_inlined_into_lemmas"] = keys(ev.notes.Inlined)
		cov["uncontracted_calls_havocked"] = keys(ev.notes.Uncontracted)
		cov["bounds"] = keys(ev.notes.Bounds)
		rej := []string{}
		for k, v := range ev.notes.Rejected {
			rej = append(rej, k+": "+v)
		}
		sort.Strings(rej)
		cov["rejected_functions"] = rej
		var units []map[string]interface{}
		byBackend := map[string]int{}
		for _, r := range ev.runs {
			u := map[string]interface{}{"kind": r.spec.Kind, "func": r.spec.Func, "generation_seconds": round3(r.genSecs), "obligations": len(r.results)}
			if r.spec.Unroll > 0 {
				u["unroll"] = r.spec.Unroll
				u["complete_by_unwinding_assertions"] = r.spec.Complete
			}
			if r.err != nil {
				u["error"] = r.err.Error()
			}
			units = append(units, u)
			for _, res := range r.results {
				if res.Status == Proved {
					byBackend[res.Solver]++
				}
			}
		}
		triv := 0
		for _, r := range ev.runs {
			if r.x != nil {
				triv += r.x.Trivial
			}
		}
		cov["obligations_folded_to_true_by_the_generator"] = triv
		cov["units"] = units
		cov["discharged_by_backend"] = byBackend
		for _, a := range keys(ev.notes.Assumed) {
			assumptions = append(assumptions, a)
		}
		if ev.total == 0 {
			cov["obligations"] = 0
		}
	} else {
		cov["obligations"] = 0
		cov["discharged"] = 0
		cov["samples"] = []interface{}{map[string]interface{}{"error": errs}}
	}
	if len(vio) > 0 {
		cov["violation_lines"] = vio
	}
	doc := map[string]interface{}{
		"property_id": id, "tier": tier, "seed": seed, "level": level, "coverage": cov,
		"assumptions": assumptions, "wall_s": round3(wall), "violations": violations,
	}
	os.MkdirAll(filepath.Join(VerifDir(), "evidence"), 0o755)
	bb, _ := json.MarshalIndent(doc, "", " ")
	os.WriteFile(filepath.Join(VerifDir(), "evidence", id+".json"), bb, 0o644)
}

// reachesAny reports whether fn statically (transitively) calls one of the named functions.
func reachesAny(fn *ssa.Function, names map[string]bool) bool {
	seen := map[*ssa.Function]bool{}
	var rec func(f *ssa.Function, depth int) bool
	rec = func(f *ssa.Function, depth int) bool {
		if f == nil || seen[f] || depth > 8 {
			return false
		}
		seen[f] = true
		if names[QualName(f)] {
			return true
		}
		for _, b := range f.Blocks {
			for _, ins := range b.Instrs {
				if c, ok := ins.(ssa.CallInstruction); ok {
					if cal := c.Common().StaticCallee(); cal != nil && rec(cal, depth+1) {
						return true
					}
				}
			}
		}
		return false
	}
	return rec(fn, 0)
}
