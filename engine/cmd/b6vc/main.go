// b6vc: contract-based deductive verifier for diagonal-b6 (see /verif/DESIGN.md).
package main

import (
	"fmt"
	"os"

	"b6vc/vc"
)

func main() {
	if len(os.Args) < 2 {
		fmt.Println("usage: b6vc check <property> [quick|thorough]")
		os.Exit(2)
	}
	switch os.Args[1] {
	case "check":
		if len(os.Args) < 3 {
			fmt.Println("usage: b6vc check <property> [quick|thorough]")
			os.Exit(2)
		}
		tier := "quick"
		if len(os.Args) > 3 {
			tier = os.Args[3]
		}
		if t := os.Getenv("VERIF_TIER"); t != "" && len(os.Args) <= 3 {
			tier = t
		}
		os.Exit(vc.RunProperty(os.Args[2], tier))
	default:
		fmt.Println("unknown command", os.Args[1])
		os.Exit(2)
	}
}
